// Package c10 is the shared correspondence driver of C10, C11 and C12 (and,
// through the same library, C30): histories of API calls against the REAL
// Calcium (harness/cw) with at most one injected fault, emitted as Coq terms of
// type Run.case.  The property to decide is VERIF_PROP.
package c10

import (
	"context"
	"errors"
	"fmt"
	"math/big"
	"math/rand"
	"sort"
	"strconv"
	"strings"
	"testing"
	"time"

	"verifharness/cw"
	"verifharness/vh"

	resourcetypes "github.com/projecteru2/core/resource/types"
	"github.com/projecteru2/core/types"
)

// ---------------------------------------------------------------- names

func podName(i int) string  { return fmt.Sprintf("p%d", i) }
func nodeName(i int) string { return fmt.Sprintf("n%d", i) }
func num(s string) int {
	n, err := strconv.Atoi(s[1:])
	if err != nil {
		return 999
	}
	return n
}

// canonical workload id "op.node.idx" -> Coq wid
type wid struct{ Op, Node, Idx int }

func parseCanon(c string) (wid, bool) {
	p := strings.Split(c, ".")
	if len(p) != 3 {
		return wid{}, false
	}
	op, e1 := strconv.Atoi(p[0])
	idx, e3 := strconv.Atoi(p[2])
	if e1 != nil || e3 != nil || len(p[1]) < 2 {
		return wid{}, false
	}
	return wid{op, num(p[1]), idx}, true
}
func (w wid) coq() string { return fmt.Sprintf("(mkWid %d %d %d)", w.Op, w.Node, w.Idx) }
func coqRes(cpu, mem int64) string {
	return fmt.Sprintf("(%s, %s)", vh.Z(cpu), vh.Z(mem))
}
func coqOpt(s string, ok bool) string {
	if ok {
		return "(Some " + s + ")"
	}
	return "None"
}

// ---------------------------------------------------------------- ops

type Op struct {
	Kind   string   `json:"kind"`
	Opi    int      `json:"opi,omitempty"`
	Pod    int      `json:"pod,omitempty"`
	Node   int      `json:"node,omitempty"`
	Count  int      `json:"count,omitempty"`
	CPU    int64    `json:"cpu,omitempty"` // 1/100 core
	Mem    int64    `json:"mem,omitempty"`
	IDs    []string `json:"ids,omitempty"` // canonical ids
	Force  bool     `json:"force,omitempty"`
	Bypass int      `json:"bypass,omitempty"` // 0 keep 1 true 2 false
	Delta  bool     `json:"delta,omitempty"`
	SetMem bool     `json:"set_mem,omitempty"`
	Stdin  bool     `json:"stdin,omitempty"`
	Strategy string `json:"strategy,omitempty"` // create: deploy strategy (default AUTO); FILL: Count = instances per node
	Limit    int    `json:"limit,omitempty"`    // create: NodesLimit (FILL)
	Label  int      `json:"label,omitempty"` // set-node: set the node's label "l" to this number (0: leave the labels)
	Bind   bool     `json:"bind,omitempty"` // cpu-bind request: each instance owns its cores
	// lambda: the caller's context is cancelled right before the first call of this method (client went away / async timeout)
	CancelAt string `json:"cancel_at,omitempty"`
	// lambda: drive the call through rpc.Vibranium.RunAndWait with a server stream whose Send fails from this message on (0 = never; -1 = do not use the rpc layer)
	RPCSendFailFrom int             `json:"rpc_send_fail_from,omitempty"`
	RPC             bool            `json:"rpc,omitempty"`
	Script          cw.LambdaScript `json:"script,omitempty"`
	Lines           int             `json:"lines,omitempty"`
	// filled after the run
	Plan     [][2]int `json:"plan,omitempty"` // (node, count) in the order the condition step visited them
	PlanNone bool     `json:"plan_none,omitempty"`
}

type FaultSpec struct {
	Method string `json:"method"`
	Target string `json:"target"`
	Ord    int    `json:"ord"`
	ByNode bool   `json:"by_node,omitempty"`
}

type StepObs struct {
	Op      Op           `json:"op"`
	Fault   *FaultSpec   `json:"fault,omitempty"` // what was armed
	Hit     string       `json:"hit,omitempty"`   // the model-level address of the call it hit
	Err     int          `json:"err"`             // 0 nil 1 injected 2 natural
	Msgs    []string     `json:"msgs"`            // Coq msg terms
	Snap    *cw.Snapshot `json:"-"`
	SnapCoq string       `json:"-"`
	Calls   []string     `json:"-"`
	Waited  []string     `json:"waited,omitempty"`
	Timeout bool         `json:"timeout,omitempty"`
	hitCoq  string
}

// ---------------------------------------------------------------- call translation

type xlat struct {
	w   *cw.World
	opi int
}

func (x xlat) widOf(id string) string {
	c := x.w.Canon(strings.TrimPrefix(id, "missing-"))
	if w, ok := parseCanon(c); ok {
		return w.coq()
	}
	return "(mkWid 999 999 999)"
}

var methCode = map[string]int{"MAddPod": 0, "MAddNode": 1, "MRemoveNode": 2, "MGetNode": 3, "MGetNodesByPod": 4, "MUpdateNodes": 5,
	"MSetNodeStatus": 6, "MAddWorkload": 7, "MUpdateWorkload": 8, "MRemoveWorkload": 9, "MGetWorkload": 10, "MGetWorkloads": 11,
	"MListNodeWorkloads": 12, "MGetDeployStatus": 13, "MCreateProcessing": 14, "MDeleteProcessing": 15, "MCreateLock": 16, "MLock": 17,
	"MUnlock": 18, "MPAddNode": 19, "MPRemoveNode": 20, "MPGetCapacity": 21, "MPSetCapacity": 22, "MPSetUsage": 23, "MPGetInfo": 24,
	"MPAlloc": 25, "MPRollbackAlloc": 26, "MPRealloc": 27, "MPRollbackRealloc": 28, "MEInfo": 29, "MEImageLocal": 30, "MEImageRemote": 31,
	"MEImagePull": 32, "MECreate": 33, "MEStart": 34, "MEStop": 35, "MERemove": 36, "MEInspect": 37, "MEUpdateResource": 38, "MELogs": 39,
	"MEAttach": 40, "MEWait": 41, "MWLog": 42, "MWCommit": 43}

// ckey is the model-level key of an intercepted call: Coq term and numeric encoding (Run.enc_key).
type ckey struct {
	Term string
	Enc  []int64
}

func (x xlat) canonWid(id string) wid {
	if w, ok := parseCanon(x.w.Canon(strings.TrimPrefix(id, "missing-"))); ok {
		return w
	}
	return wid{999, 999, 999}
}

// key returns the model-level (meth, target) of an intercepted call; ok=false for calls outside the model.
func (x xlat) key(c cw.Call) (ckey, bool) {
	mk := func(m string, tterm string, tenc ...int64) (ckey, bool) {
		return ckey{Term: "(" + m + ", " + tterm + ")", Enc: append([]int64{int64(methCode[m])}, tenc...)}, true
	}
	name := func(m, s string) (ckey, bool) {
		return mk(m, fmt.Sprintf("(TName %d)", num(s)), 1, int64(num(s)))
	}
	twid := func(m string, w wid) (ckey, bool) {
		return mk(m, "(TWid "+w.coq()+")", 2, int64(w.Op), int64(w.Node), int64(w.Idx))
	}
	lock := func(m, k string) (ckey, bool) {
		switch {
		case strings.HasPrefix(k, "plock_"):
			p := num(strings.TrimPrefix(k, "plock_"))
			return mk(m, fmt.Sprintf("(TLock (LPod %d))", p), 4, 1, int64(p))
		case strings.HasPrefix(k, "clock_"):
			w := x.canonWid(strings.TrimPrefix(k, "clock_"))
			return mk(m, "(TLock (LWl "+w.coq()+"))", 4, 2, int64(w.Op), int64(w.Node), int64(w.Idx))
		case strings.HasPrefix(k, "cnode_op_"):
			p := strings.Split(strings.TrimPrefix(k, "cnode_op_"), "_")
			n := num(p[len(p)-1])
			return mk(m, fmt.Sprintf("(TLock (LNodeOp %d))", n), 4, 3, int64(n))
		}
		return mk(m, "(TLock (LPod 999))", 4, 1, 999)
	}
	switch c.Party {
	case "store":
		switch c.Method {
		case "AddPod", "AddNode", "RemoveNode", "GetNode", "GetNodesByPod", "UpdateNodes", "SetNodeStatus", "ListNodeWorkloads", "CreateProcessing", "DeleteProcessing":
			return name("M"+c.Method, c.Target)
		case "AddWorkload", "UpdateWorkload", "RemoveWorkload", "GetWorkload":
			return twid("M"+c.Method, x.canonWid(c.Target))
		case "GetWorkloads":
			terms, enc := []string{}, []int64{3}
			if c.Arg != "" {
				for _, id := range strings.Split(c.Arg, ",") {
					w := x.canonWid(id)
					terms = append(terms, w.coq())
					enc = append(enc, int64(w.Op), int64(w.Node), int64(w.Idx))
				}
			}
			return mk("MGetWorkloads", "(TWids "+vh.List(terms)+")", enc...)
		case "GetDeployStatus":
			return mk("MGetDeployStatus", "TNone", 0)
		case "CreateLock":
			return lock("MCreateLock", c.Target)
		}
	case "lock":
		switch c.Method {
		case "Lock":
			return lock("MLock", c.Target)
		case "Unlock":
			return lock("MUnlock", c.Target)
		}
	case "rmgr":
		m := map[string]string{"AddNode": "MPAddNode", "RemoveNode": "MPRemoveNode", "SetNodeResourceCapacity": "MPSetCapacity",
			"SetNodeResourceUsage": "MPSetUsage", "GetNodeResourceInfo": "MPGetInfo", "Alloc": "MPAlloc", "RollbackAlloc": "MPRollbackAlloc",
			"Realloc": "MPRealloc", "RollbackRealloc": "MPRollbackRealloc"}
		if c.Method == "GetNodesDeployCapacity" {
			return mk("MPGetCapacity", "TNone", 0)
		}
		if mm, ok := m[c.Method]; ok {
			return name(mm, c.Target)
		}
	case "engine":
		switch c.Method {
		case "Info":
			return name("MEInfo", c.Target)
		case "ImageLocalDigests":
			return name("MEImageLocal", c.Target)
		case "ImageRemoteDigest":
			return name("MEImageRemote", c.Target)
		case "ImagePull":
			return name("MEImagePull", c.Target)
		case "VirtualizationCreate":
			seq, _ := strconv.Atoi(c.Arg)
			return twid("MECreate", wid{x.opi, num(c.Node), x.w.Hub.CanonSeq(x.opi, c.Node, seq)})
		}
		m := map[string]string{"VirtualizationStart": "MEStart", "VirtualizationStop": "MEStop", "VirtualizationRemove": "MERemove",
			"VirtualizationInspect": "MEInspect", "VirtualizationUpdateResource": "MEUpdateResource", "VirtualizationLogs": "MELogs",
			"VirtualizationAttach": "MEAttach", "VirtualizationWait": "MEWait"}
		if mm, ok := m[c.Method]; ok {
			return twid(mm, x.canonWid(c.Target))
		}
	case "wal":
		m := "MWLog"
		if c.Method == "Commit" {
			m = "MWCommit"
		} else if c.Method != "Log" {
			return ckey{}, false
		}
		switch c.Target {
		case "allocate-workload":
			return mk(m, "(TEvent (EvAlloc []))", 5, 1)
		case "create-processing":
			return mk(m, fmt.Sprintf("(TEvent (EvProc %d %d))", num(c.Arg), x.opi), 5, 2, int64(num(c.Arg)))
		case "create-workload":
			w := x.canonWid(c.Arg)
			return mk(m, "(TEvent (EvCreate "+w.coq()+"))", 5, 3, int64(w.Op), int64(w.Node), int64(w.Idx))
		case "create-lambda":
			w := x.canonWid(c.Arg)
			return mk(m, "(TEvent (EvLambda "+w.coq()+"))", 5, 4, int64(w.Op), int64(w.Node), int64(w.Idx))
		}
	}
	return ckey{}, false
}

// pack = Run.pack: little-endian base-1000 digits terminated by 1
func pack(ds []int64) string {
	z := big.NewInt(1)
	for i := len(ds) - 1; i >= 0; i-- {
		z.Mul(z, big.NewInt(1000))
		z.Add(z, big.NewInt(ds[i]))
	}
	return "(" + z.String() + ")%Z"
}

// ---------------------------------------------------------------- driver

type driver struct {
	t   *testing.T
	w   *cw.World
	rng *rand.Rand
	opi int
	// live workloads: canonical -> real id
	live map[string]string
	// ops that created cpu-bound workloads (realloc of those depends on core scheduling the abstract contract does not model)
	boundOps map[int]bool
	snap     *cw.Snapshot
}

func errClass(err error) int {
	switch {
	case err == nil:
		return 0
	case errors.Is(err, cw.ErrInjected):
		return 1
	}
	return 2
}

func (d *driver) resolve(ids []string) []string {
	out := []string{}
	for _, c := range ids {
		if id, ok := d.live[c]; ok {
			out = append(out, id)
		} else {
			out = append(out, "missing-"+c)
		}
	}
	return out
}

func (d *driver) deployOpts(o *Op) *types.DeployOptions {
	res := cw.CPUMem(float64(o.CPU)/100, o.Mem)
	if o.Bind {
		res = cw.CPUMemBind(float64(o.CPU)/100, o.Mem)
	}
	opts := &types.DeployOptions{
		Name: "app", Entrypoint: &types.Entrypoint{Name: "web"}, Podname: podName(o.Pod), Image: "img",
		Count: o.Count, DeployStrategy: "AUTO", NodeFilter: &types.NodeFilter{Podname: podName(o.Pod)},
		Resources: res, OpenStdin: o.Stdin,
	}
	if o.Strategy != "" {
		opts.DeployStrategy, opts.NodesLimit = o.Strategy, o.Limit
	}
	return opts
}

const chanDeadline = 25 * time.Second

// run executes one API call with an optional armed fault and observes everything.
func (d *driver) run(o Op, f *FaultSpec) *StepObs {
	w := d.w
	ctx := w.Ctx
	obs := &StepObs{Op: o, Fault: f, Msgs: []string{}}
	if o.Bind {
		d.boundOps[o.Opi] = true
	}
	w.Quiesce()
	w.IC.Reset()
	norm := o.Kind == "create" || o.Kind == "lambda"
	w.Hub.SetOpNorm(o.Opi, norm)
	if o.Kind == "lambda" {
		sc := o.Script
		sc.Stdout = strings.Repeat("x\n", o.Lines)
		w.Hub.SetScript(sc)
	}
	if f != nil {
		w.IC.SetFault(&cw.Addr{Method: f.Method, Target: f.Target, Ord: f.Ord, ByNode: f.ByNode})
	}
	x := xlat{w: w, opi: o.Opi}
	add := func(m string) { obs.Msgs = append(obs.Msgs, m) }
	deadline := time.After(chanDeadline)
	var err error
	switch o.Kind {
	case "addpod":
		_, err = w.C.AddPod(ctx, podName(o.Pod), "")
	case "addnode":
		var node *types.Node
		node, err = w.C.AddNode(ctx, &types.AddNodeOptions{Nodename: nodeName(o.Node), Endpoint: w.Hub.Endpoint(nodeName(o.Node)), Podname: podName(o.Pod),
			Resources: resourcetypes.Resources{"cpumem": resourcetypes.RawParams{"cpu": int(o.CPU / 100), "memory": o.Mem}}})
		if err == nil {
			_ = w.RawStore.SetNodeStatus(ctx, node, 3600)
		}
	case "removenode":
		err = w.C.RemoveNode(ctx, nodeName(o.Node))
	case "setnode":
		so := &types.SetNodeOptions{Nodename: nodeName(o.Node), Bypass: types.TriOptions(o.Bypass), Delta: o.Delta}
		if o.SetMem {
			so.Resources = resourcetypes.Resources{"cpumem": resourcetypes.RawParams{"memory": o.Mem}}
		}
		if o.Label > 0 {
			so.Labels = map[string]string{"l": strconv.Itoa(o.Label)}
		}
		_, err = w.C.SetNode(ctx, so)
	case "create":
		var ch chan *types.CreateWorkloadMessage
		ch, err = w.C.CreateWorkload(ctx, d.deployOpts(&o))
		if err == nil {
		loopc:
			for {
				select {
				case m, ok := <-ch:
					if !ok {
						add("MClose")
						break loopc
					}
					switch {
					case m.Error != nil && m.Nodename == "":
						add("MCreateErr")
					case m.Error != nil:
						add(fmt.Sprintf("(MCreateFail %d)", num(m.Nodename)))
					default:
						c, mm := cpumem(m.Resources)
						add("(MCreateOk " + x.widOf(m.WorkloadID) + " " + coqRes(c, mm) + ")")
					}
				case <-deadline:
					obs.Timeout = true
					break loopc
				}
			}
		}
	case "remove":
		var ch chan *types.RemoveWorkloadMessage
		ch, err = w.C.RemoveWorkload(ctx, d.resolve(o.IDs), o.Force)
		if err == nil {
		loopr:
			for {
				select {
				case m, ok := <-ch:
					if !ok {
						add("MClose")
						break loopr
					}
					if m.WorkloadID == "" {
						add("MRemoveNodeFail")
					} else {
						add("(MRemove " + x.widOf(m.WorkloadID) + " " + vh.Bool(m.Success) + ")")
					}
				case <-deadline:
					obs.Timeout = true
					break loopr
				}
			}
		}
	case "dissociate":
		var ch chan *types.DissociateWorkloadMessage
		ch, err = w.C.DissociateWorkload(ctx, d.resolve(o.IDs))
		if err == nil {
		loopd:
			for {
				select {
				case m, ok := <-ch:
					if !ok {
						add("MClose")
						break loopd
					}
					add("(MDissociate " + x.widOf(m.WorkloadID) + " " + coqErr(m.Error) + ")")
				case <-deadline:
					obs.Timeout = true
					break loopd
				}
			}
		}
	case "realloc":
		err = w.C.ReallocResource(ctx, &types.ReallocOptions{ID: d.resolve(o.IDs)[0], Resources: cw.CPUMem(float64(o.CPU)/100, o.Mem)})
	case "replace":
		ro := &types.ReplaceOptions{DeployOptions: *d.deployOpts(&Op{Pod: 0, Count: 1, CPU: 50, Mem: 100}), IDs: d.resolve(o.IDs)}
		ro.DeployOptions.Podname = ""
		var ch chan *types.ReplaceWorkloadMessage
		ch, err = w.C.ReplaceWorkload(ctx, ro)
		if err == nil {
		looprp:
			for {
				select {
				case m, ok := <-ch:
					if !ok {
						add("MClose")
						break looprp
					}
					newID, hasNew := "", false
					if m.Create != nil && m.Create.WorkloadID != "" {
						newID, hasNew = x.widOf(m.Create.WorkloadID), true
					}
					add(fmt.Sprintf("(MReplace %s %s %s %s)", x.widOf(m.Remove.WorkloadID), coqOpt(newID, hasNew), vh.Bool(m.Remove.Success), coqErr(m.Error)))
				case <-deadline:
					obs.Timeout = true
					break looprp
				}
			}
		}
	case "lambda":
		var ch <-chan *types.AttachWorkloadMessage
		lctx, lcancel := context.WithCancel(ctx)
		defer lcancel()
		if o.CancelAt != "" {
			w.IC.Probe = func(c cw.Call) {
				if !c.Bg && c.Method == o.CancelAt {
					lcancel()
				}
			}
			defer func() { w.IC.Probe = nil }()
		}
		if o.RPC {
			ch, err = d.runAndWaitRPC(lctx, &o)
		} else {
			var in chan []byte
			if o.Stdin {
				in = make(chan []byte) // the caller's input: kept open (never written, never closed) for the whole run
			}
			_, ch, err = w.C.RunAndWait(lctx, d.deployOpts(&o), in)
		}
		if err == nil {
		loopl:
			for {
				select {
				case m, ok := <-ch:
					if !ok {
						add("MClose")
						break loopl
					}
					switch {
					case m.StdStreamType == types.EruError && m.WorkloadID == "":
						add("(MLambdaErr None)")
					case m.StdStreamType == types.EruError:
						add("(MLambdaErr (Some " + x.widOf(m.WorkloadID) + "))")
					case strings.HasPrefix(string(m.Data), "[exitcode] "):
						code, _ := strconv.Atoi(strings.TrimPrefix(string(m.Data), "[exitcode] "))
						add(fmt.Sprintf("(MLambdaExit %s %s)", x.widOf(m.WorkloadID), vh.Z(int64(code))))
					default:
						add("(MLambdaOut " + x.widOf(m.WorkloadID) + ")")
					}
				case <-deadline:
					obs.Timeout = true
					break loopl
				}
			}
		}
	default:
		d.t.Fatalf("unknown op %s", o.Kind)
	}
	obs.Err = errClass(err)
	w.Quiesce()
	log := w.IC.Log()
	w.IC.SetFault(nil)

	// the strategy's plan as the condition step used it
	if o.Kind == "create" || o.Kind == "lambda" {
		seen := map[string]bool{}
		strategyRan := false
		for _, c := range log {
			if c.Bg {
				continue
			}
			if c.Method == "GetDeployStatus" && !c.Faulted && !c.Err {
				strategyRan = true
			}
			if c.Method == "Alloc" && !seen[c.Node] {
				seen[c.Node] = true
				k, _ := strconv.Atoi(c.Arg)
				obs.Op.Plan = append(obs.Op.Plan, [2]int{num(c.Node), k})
			}
		}
		for _, c := range log {
			if !c.Bg && c.Method == "DeleteProcessing" && !seen[c.Node] {
				seen[c.Node] = true
				obs.Op.Plan = append(obs.Op.Plan, [2]int{num(c.Node), 1})
			}
		}
		if len(obs.Op.Plan) == 0 && strategyRan {
			obs.Op.PlanNone = true
		}
	}

	// calls and the model-level address of the faulted one
	d.encodeCalls(x, log, obs)
	for _, c := range log {
		if !c.Bg && c.Method == "VirtualizationWait" && !c.Faulted && !c.Err {
			obs.Waited = append(obs.Waited, x.widOf(c.Target))
		}
	}
	if obs.hitCoq == "" {
		obs.hitCoq = "None"
	}

	// snapshot
	s := w.Snapshot()
	obs.Snap = s
	d.snap = s
	d.live = map[string]string{}
	for _, wl := range s.Workloads {
		d.live[wl.Canon] = wl.ID
	}
	obs.SnapCoq = snapCoq(s)
	return obs
}

func cpumem(r resourcetypes.Resources) (int64, int64) {
	p := r["cpumem"]
	if p == nil {
		return 0, 0
	}
	f := p.Float64("cpu_request")
	return int64(f*100 + 0.5), p.Int64("memory_request")
}

func coqErr(err error) string {
	switch errClass(err) {
	case 0:
		return "None"
	case 1:
		return "(Some EInjected)"
	}
	return "(Some ENatural)"
}

func snapCoq(s *cw.Snapshot) string {
	pods := []string{}
	for _, p := range s.Pods {
		pods = append(pods, strconv.Itoa(num(p)))
	}
	nodes, plugs, wls, wlnodes, conts, eng := []string{}, []string{}, []string{}, []string{}, []string{}, []string{}
	diffs := 0
	for _, n := range s.Nodes {
		label := 0 // the harness only ever sets the label "l" to a number
		for _, kv := range n.Labels {
			if strings.HasPrefix(kv, "l=") {
				label, _ = strconv.Atoi(strings.TrimPrefix(kv, "l="))
			}
		}
		nodes = append(nodes, fmt.Sprintf("(%d, %d, %s, %s, %d)", num(n.Name), num(n.Pod), vh.Bool(n.Bypass), vh.Bool(n.Available), label))
		if n.HasPlugin {
			plugs = append(plugs, fmt.Sprintf("(%d, %s, %s)", num(n.Name), coqRes(n.CapCPU, n.CapMem), coqRes(n.UseCPU, n.UseMem)))
		}
		diffs += len(n.Diffs)
	}
	for _, n := range s.PluginOnlyInfo {
		plugs = append(plugs, fmt.Sprintf("(%d, %s, %s)", num(n.Name), coqRes(n.CapCPU, n.CapMem), coqRes(n.UseCPU, n.UseMem)))
	}
	for _, wl := range s.Workloads {
		c, ok := parseCanon(wl.Canon)
		if !ok {
			c = wid{999, 999, 999}
		}
		pod := 999
		if len(wl.Pod) > 1 {
			pod = num(wl.Pod)
		}
		node := 999
		if len(wl.Node) > 1 {
			node = num(wl.Node)
		}
		wls = append(wls, fmt.Sprintf("(%s, %d, %s)", c.coq(), pod, coqRes(wl.CPU, wl.Mem)))
		// the parameters the stored record hands to the engine (the model has one value for both)
		eng = append(eng, fmt.Sprintf("(%s, %s)", c.coq(), coqRes(wl.EngCPU, wl.EngMem)))
		wlnodes = append(wlnodes, fmt.Sprintf("(%s, %d)", c.coq(), node))
	}
	for _, c := range s.Containers {
		id, ok := parseCanon(c.Canon)
		if !ok {
			id = wid{999, 999, 999}
		}
		st := map[string]int{cw.Created: 0, cw.Running: 1, cw.Stopped: 2}[c.State]
		conts = append(conts, fmt.Sprintf("(%s, %s)", id.coq(), vh.ZI(st)))
	}
	return fmt.Sprintf("(mkSnap %s %s %s %s %s %s %d %d %d %s)", vh.List(pods), vh.List(nodes), vh.List(plugs), vh.List(wls), vh.List(wlnodes), vh.List(conts),
		len(s.Processing), len(s.OpenWAL), diffs, vh.List(eng))
}

func (o Op) coq() string {
	ids := func() string {
		out := []string{}
		for _, c := range o.IDs {
			w, ok := parseCanon(c)
			if !ok {
				w = wid{999, 999, 999}
			}
			out = append(out, w.coq())
		}
		return vh.List(out)
	}
	plan := func() string {
		if o.PlanNone || len(o.Plan) == 0 {
			return "None"
		}
		ps := []string{}
		for _, p := range o.Plan {
			ps = append(ps, fmt.Sprintf("(%d, %d)", p[0], p[1]))
		}
		return "(Some " + vh.List(ps) + ")"
	}
	switch o.Kind {
	case "addpod":
		return fmt.Sprintf("(OAddPod %d)", o.Pod)
	case "addnode":
		return fmt.Sprintf("(OAddNode %d %d %s)", o.Node, o.Pod, coqRes(o.CPU, o.Mem))
	case "removenode":
		return fmt.Sprintf("(ORemoveNode %d)", o.Node)
	case "setnode":
		by := "None"
		if o.Bypass == 1 {
			by = "(Some true)"
		} else if o.Bypass == 2 {
			by = "(Some false)"
		}
		mem := "None"
		if o.SetMem {
			mem = fmt.Sprintf("(Some (%s, %s))", vh.Z(o.Mem), vh.Bool(o.Delta))
		}
		lab := "None"
		if o.Label > 0 {
			lab = fmt.Sprintf("(Some %d)", o.Label)
		}
		return fmt.Sprintf("(OSetNode %d %s %s %s)", o.Node, by, mem, lab)
	case "create":
		count := o.Count
		if o.Strategy == "FILL" {
			// FILL: Count is per node; the model's count is the number of instances asked for overall = the plan's total
			total := 0
			for _, p := range o.Plan {
				total += p[1]
			}
			if total > 0 {
				count = total
			}
		}
		return fmt.Sprintf("(OCreate %d %d %d %s %s)", o.Opi, o.Pod, count, coqRes(o.CPU, o.Mem), plan())
	case "remove":
		return fmt.Sprintf("(ORemove %s %s)", ids(), vh.Bool(o.Force))
	case "dissociate":
		return fmt.Sprintf("(ODissociate %s)", ids())
	case "realloc":
		w, _ := parseCanon(o.IDs[0])
		return fmt.Sprintf("(ORealloc %s %s)", w.coq(), coqRes(o.CPU, o.Mem))
	case "replace":
		return fmt.Sprintf("(OReplace %d %s)", o.Opi, ids())
	case "lambda":
		return fmt.Sprintf("(OLambda %d %d %d %s %s %s (mkLs %s %s %s %s %d))", o.Opi, o.Pod, o.Count, coqRes(o.CPU, o.Mem), plan(), vh.Bool(o.Stdin),
			vh.Bool(o.Script.LogsErr), vh.Bool(o.Script.AttachErr), vh.Bool(o.Script.WaitErr), vh.Z(o.Script.ExitCode), o.Lines)
	}
	return "(OAddPod 999)"
}

func (s *StepObs) coq() string {
	msgs := append([]string{}, s.Msgs...)
	return fmt.Sprintf("(mkStep %s %s %s %s %s %s %s)", s.Op.coq(), s.hitCoq, vh.ZI(s.Err), vh.List(msgs), s.SnapCoq, "("+vh.List(s.Calls)+")%Z", vh.List(s.Waited))
}

// ---------------------------------------------------------------- generators

type history struct {
	Strict bool
	Steps  []*StepObs
}

func (h *history) coq() string {
	st := []string{}
	for _, s := range h.Steps {
		st = append(st, s.coq())
	}
	return fmt.Sprintf("(mkCase %s %s)", vh.Bool(h.Strict), vh.List(st))
}

// fault catalogue per op kind: methods worth failing (the wrapper's Go method names)
var faultMethods = map[string][]string{
	"addnode":    {"Info", "AddNode", "AddNode"},
	"removenode": {"GetNode", "CreateLock", "Lock", "ListNodeWorkloads", "SetNodeStatus", "RemoveNode", "RemoveNode"},
	"setnode":    {"GetNode", "Lock", "GetNodeResourceInfo", "GetNodeResourceInfo", "SetNodeResourceCapacity", "UpdateNodes", "UpdateNodes"},
	"create": {"GetNodesByPod", "CreateLock", "Lock", "Log", "Log", "GetNodesDeployCapacity", "GetDeployStatus", "Alloc", "Alloc", "CreateProcessing",
		"GetNode", "ImageLocalDigests", "ImageRemoteDigest", "VirtualizationCreate", "AddWorkload", "AddWorkload", "VirtualizationStart", "VirtualizationStart",
		"VirtualizationInspect", "Commit", "DeleteProcessing"},
	"remove":     {"GetWorkloads", "GetNode", "CreateLock", "Lock", "SetNodeResourceUsage", "SetNodeResourceUsage", "RemoveWorkload", "VirtualizationRemove", "VirtualizationRemove"},
	"dissociate": {"GetWorkloads", "GetNode", "Lock", "SetNodeResourceUsage", "SetNodeResourceUsage", "RemoveWorkload", "RemoveWorkload"},
	"realloc":    {"GetWorkload", "GetNode", "Lock", "GetWorkloads", "Realloc", "Plugin.SetNodeResourceUsage", "UpdateWorkload", "UpdateWorkload", "VirtualizationUpdateResource", "VirtualizationUpdateResource"},
	"replace": {"GetWorkloads", "CreateLock", "GetNode", "ImageLocalDigests", "VirtualizationStop", "VirtualizationCreate", "Log", "AddWorkload", "VirtualizationStart",
		"VirtualizationInspect", "RemoveWorkload", "RemoveWorkload", "VirtualizationRemove", "VirtualizationRemove", "AddWorkload"},
	"lambda": {"Log", "Log", "Log", "GetWorkload", "VirtualizationLogs", "VirtualizationAttach", "VirtualizationWait", "GetWorkloads", "SetNodeResourceUsage", "RemoveWorkload",
		"VirtualizationRemove", "Alloc", "AddWorkload", "VirtualizationStart", "Commit"},
}

func (d *driver) liveList() []cw.WorkloadSnap {
	if d.snap == nil {
		return nil
	}
	return d.snap.Workloads
}

// randomOp draws the next API call from the current state.
func (d *driver) randomOp(kinds []string) (Op, bool) {
	r := d.rng
	kind := kinds[r.Intn(len(kinds))]
	live := d.liveList()
	pick := func(n int) []string {
		idx := r.Perm(len(live))
		out := []string{}
		for _, i := range idx {
			if len(out) == n {
				break
			}
			out = append(out, live[i].Canon)
		}
		return out
	}
	nodes := []int{}
	if d.snap != nil {
		for _, n := range d.snap.Nodes {
			nodes = append(nodes, num(n.Name))
		}
	}
	d.opi++
	o := Op{Kind: kind, Opi: d.opi}
	switch kind {
	case "create":
		o.Pod = r.Intn(2)
		o.Count = 1 + r.Intn(4)
		o.CPU = []int64{50, 100, 200}[r.Intn(3)]
		o.Mem = []int64{100, 200, 300, 700}[r.Intn(4)]
		if r.Intn(3) == 0 {
			o.Bind, o.CPU = true, 100
		}
	case "lambda":
		o.Pod = r.Intn(2)
		o.Count = 1 + r.Intn(3)
		o.CPU, o.Mem = 50, []int64{100, 200}[r.Intn(2)]
		o.Stdin = r.Intn(4) == 0
		if o.Stdin && r.Intn(4) != 0 {
			o.Count = 1
		}
		o.Lines = r.Intn(3)
		o.Script = cw.LambdaScript{LogsErr: r.Intn(6) == 0, AttachErr: r.Intn(6) == 0, WaitErr: r.Intn(6) == 0, ExitCode: []int64{0, 7}[r.Intn(2)]}
	case "remove":
		if len(live) == 0 || r.Intn(8) == 0 {
			// a workload that does not exist: refused without any fault
			o.IDs = []string{"99.n0.0"}
			o.Force = true
			return o, true
		}
		o.IDs = pick(1 + r.Intn(3))
		o.Force = r.Intn(3) != 0
	case "dissociate":
		if len(live) == 0 {
			return o, false
		}
		o.IDs = pick(1 + r.Intn(2))
	case "realloc":
		if len(live) == 0 {
			return o, false
		}
		o.IDs = pick(1)
		if w, ok := parseCanon(o.IDs[0]); ok && d.boundOps[w.Op] {
			return o, false
		}
		o.CPU = []int64{0, 50, -50, 100}[r.Intn(4)]
		o.Mem = []int64{0, 100, -50, -100, 5000}[r.Intn(5)]
	case "replace":
		if len(live) == 0 {
			return o, false
		}
		o.IDs = pick(1 + r.Intn(2))
	case "setnode":
		if len(nodes) == 0 {
			return o, false
		}
		o.Node = nodes[r.Intn(len(nodes))]
		o.Bypass = r.Intn(3)
		if r.Intn(2) == 0 {
			o.SetMem, o.Delta, o.Mem = true, true, []int64{100, 500}[r.Intn(2)]
		}
		if r.Intn(2) == 0 {
			o.Label = 1 + r.Intn(3)
		}
	case "addnode":
		o.Node = 6 + r.Intn(3)
		o.Pod = r.Intn(2)
		o.CPU, o.Mem = 400, 1000
		switch r.Intn(5) {
		case 0: // a node name that is (probably) registered already: refused without any fault
			o.Node = r.Intn(6)
		case 1: // a pod that does not exist
			o.Pod = 5
		}
	case "removenode":
		if len(nodes) == 0 {
			return o, false
		}
		o.Node = nodes[r.Intn(len(nodes))]
	}
	return o, true
}

func (d *driver) setup(h *history, npods, nodesPerPod int, mem int64) {
	for p := 0; p < npods; p++ {
		d.opi++
		h.Steps = append(h.Steps, d.run(Op{Kind: "addpod", Opi: d.opi, Pod: p}, nil))
	}
	for p := 0; p < npods; p++ {
		for k := 0; k < nodesPerPod; k++ {
			d.opi++
			h.Steps = append(h.Steps, d.run(Op{Kind: "addnode", Opi: d.opi, Pod: p, Node: p*nodesPerPod + k, CPU: 400, Mem: mem}, nil))
		}
	}
}

// setupSmall: one pod, one node with 4 cores (the cheapest world for fault enumeration).
func (d *driver) setupSmall(h *history) {
	d.opi++
	h.Steps = append(h.Steps, d.run(Op{Kind: "addpod", Opi: d.opi, Pod: 0}, nil))
	d.opi++
	h.Steps = append(h.Steps, d.run(Op{Kind: "addnode", Opi: d.opi, Pod: 0, Node: 0, CPU: 400, Mem: 1000}, nil))
}

func newDriver(t *testing.T, rng *rand.Rand, strict bool) *driver {
	w := cw.New(t, cw.Options{StrictRemove: strict, PluginFaults: true})
	return &driver{t: t, w: w, rng: rng, live: map[string]string{}, boundOps: map[int]bool{}}
}

func tagsOf(h *history) (map[string]any, bool) {
	tags := map[string]any{"fault_op": "none", "fault_method": "none", "fault_pos": "none", "kinds": ""}
	kinds := map[string]bool{}
	nontrivial := false
	for _, s := range h.Steps {
		kinds[s.Op.Kind] = true
		if s.Hit != "" {
			tags["fault_op"] = s.Op.Kind
			tags["fault_method"] = s.Fault.Method
			tags["fault_pos"] = posClass(s)
			nontrivial = true
		}
		if s.Err != 0 {
			nontrivial = true
		}
	}
	ks := []string{}
	for k := range kinds {
		ks = append(ks, k)
	}
	sort.Strings(ks)
	tags["kinds"] = strings.Join(ks, ",")
	return tags, nontrivial
}

// posClass classifies where in the operation the fault landed (input-side description:
// it depends on the armed address and the history, not on the outcome being judged).
func posClass(s *StepObs) string {
	hit := s.Hit
	switch s.Op.Kind {
	case "create", "lambda":
		m := s.Fault.Method
		switch m {
		case "Alloc", "CreateProcessing":
			// late = at least one Alloc was committed before the failing call
			if strings.Contains(hit, "Alloc") && strings.HasSuffix(hit, "#0") && len(s.Op.Plan) > 0 && fmt.Sprintf("n%d", s.Op.Plan[0][0]) == hitNode(hit) {
				return "cond-first-alloc"
			}
			return "cond-after-alloc"
		case "Log":
			switch {
			case strings.Contains(hit, "allocate-workload"):
				return "cond-before-alloc"
			case strings.Contains(hit, "create-processing"):
				return "cond-after-alloc"
			case strings.Contains(hit, "create-lambda"):
				return "lambda-log"
			}
			return "deploy"
		case "GetNodesByPod", "CreateLock", "Lock", "GetNodesDeployCapacity", "GetDeployStatus":
			if strings.Contains(hit, "plock") || m != "CreateLock" && m != "Lock" {
				return "cond-before-alloc"
			}
			return "other"
		}
		return "deploy"
	case "realloc":
		if s.Fault.Method == "UpdateWorkload" && strings.HasSuffix(hit, "#0") {
			return "cond-after-realloc"
		}
		return "other"
	case "removenode":
		if s.Fault.Method == "RemoveNode" && strings.HasPrefix(hit, "rmgr/") {
			return "plugin-remove"
		}
		return "other"
	case "setnode":
		if s.Fault.Method == "UpdateNodes" && s.Op.SetMem {
			return "update-after-capacity"
		}
		return "other"
	case "replace":
		// with a single fault these two calls can only concern the OLD workload
		if s.Fault.Method == "RemoveWorkload" || s.Fault.Method == "VirtualizationRemove" {
			return "remove-old"
		}
		return "other"
	}
	return "other"
}

func hitNode(hit string) string {
	p := strings.Split(hit, "/")
	if len(p) < 3 {
		return ""
	}
	return strings.Split(p[2], "#")[0]
}

// scheduleDependent reports fault placements whose effect depends on goroutine scheduling or Go map
// order in a way the (sequentialised) model cannot know; such histories are not emitted.
func scheduleDependent(s *StepObs) bool {
	if s.Hit == "" || s.Fault == nil {
		return false
	}
	nodesOf := func(ids []string) int {
		m := map[string]bool{}
		for _, c := range ids {
			p := strings.Split(c, ".")
			if len(p) == 3 {
				m[p[1]] = true
			}
		}
		return len(m)
	}
	switch s.Op.Kind {
	case "create", "lambda":
		// the deferred loop over processingCommits (a Go map) stops at the nil entry: which
		// other entries were committed before it depends on map order
		if strings.Contains(s.Hit, "wal/Log/create-processing") && len(s.Op.Plan) > 1 {
			return true
		}
		// run-and-wait: the closures of the created workloads run concurrently; a wildcard-addressed fault in
		// their removal hits whichever closure gets there first (the model runs them in message order)
		if s.Op.Kind == "lambda" && s.Op.Count > 1 {
			switch s.Fault.Method {
			case "GetWorkloads", "SetNodeResourceUsage", "RemoveWorkload", "VirtualizationRemove":
				return true
			}
		}
		return false
	case "remove", "dissociate":
		// the per-node tasks compete for the same pod lock
		return nodesOf(s.Op.IDs) > 1 && (s.Fault.Method == "CreateLock" || s.Fault.Method == "Lock")
	case "replace":
		// the per-workload tasks of one node make the same node-level calls
		return len(s.Op.IDs) > 1 && nodesOf(s.Op.IDs) < len(s.Op.IDs) &&
			(s.Fault.Method == "GetNode" || s.Fault.Method == "ImageLocalDigests" || s.Fault.Method == "ImageRemoteDigest")
	}
	return false
}

// SkipHistory reports whether a history contains a schedule-dependent fault placement.
func SkipHistory(h *History) bool {
	for _, s := range h.Steps {
		if scheduleDependent(s) {
			return true
		}
	}
	return false
}

func (d *driver) armFor(o Op) *FaultSpec {
	ms := faultMethods[o.Kind]
	if len(ms) == 0 {
		return nil
	}
	m := ms[d.rng.Intn(len(ms))]
	ord := 0
	if d.rng.Intn(3) == 0 {
		ord = 1 + d.rng.Intn(3)
	}
	if o.Kind == "setnode" && m == "GetNodeResourceInfo" && d.rng.Intn(2) == 0 {
		ord = 1 // the refresh after the store update
	}
	return &FaultSpec{Method: m, Target: "*", Ord: ord}
}

func emit(r *vh.Run, h *history, extra map[string]any) {
	if SkipHistory(h) {
		r.Count("dropped-schedule-dependent")
		return
	}
	tags, nontrivial := tagsOf(h)
	for k, v := range extra {
		tags[k] = v
	}
	for _, s := range h.Steps {
		r.Count("op=" + s.Op.Kind)
		if s.Hit != "" {
			r.Count("fault_op=" + s.Op.Kind)
			r.Count("fault_method=" + s.Fault.Method)
		}
		if s.Err != 0 {
			r.Count(fmt.Sprintf("err=%d", s.Err))
		}
		if s.Timeout {
			r.Count("timeout")
		}
	}
	r.Add(h.coq(), map[string]any{"strict": h.Strict, "steps": h.Steps}, tags, nontrivial)
}

func okFn(prop string) string {
	switch prop {
	case "C11":
		return "Run.ok_c11"
	case "C12":
		return "Run.ok_c12"
	case "C30":
		return "Run.ok_c30"
	}
	return "Run.ok_c10"
}

// ---- exported entry points for the other drivers of this world (harness/c30)

type Driver = driver
type History = history

func NewDriver(t *testing.T, rng *rand.Rand, strict bool) *Driver { return newDriver(t, rng, strict) }
func (d *driver) Setup(h *History, npods, nodesPerPod int, mem int64) {
	d.setup(h, npods, nodesPerPod, mem)
}
func (d *driver) Run(o Op, f *FaultSpec) *StepObs      { return d.run(o, f) }
func (d *driver) RandomOp(kinds []string) (Op, bool)   { return d.randomOp(kinds) }
func (d *driver) ArmFor(o Op) *FaultSpec               { return d.armFor(o) }
func (d *driver) NextOpi() int                         { d.opi++; return d.opi }
func (d *driver) Live() []cw.WorkloadSnap              { return d.liveList() }
func (d *driver) Close()                               { d.w.Close() }
func (d *driver) World() *cw.World                     { return d.w }
func Emit(r *vh.Run, h *History, extra map[string]any) { emit(r, h, extra) }
func OkFn(prop string) string                          { return okFn(prop) }
