package c10

import (
	"context"
	"encoding/json"
	"errors"
	"io"
	"sync"

	"google.golang.org/grpc/metadata"

	"github.com/projecteru2/core/rpc"
	pb "github.com/projecteru2/core/rpc/gen"
	"github.com/projecteru2/core/types"
)

// fakeRunAndWaitStream is the server side of a RunAndWait gRPC stream: Recv
// yields the request once, Send forwards every message it is given to out
// (also the ones for which it reports a transport error: the harness observes
// what the rpc layer TRIED to send) and fails from message failFrom on.
type fakeRunAndWaitStream struct {
	ctx      context.Context
	req      *pb.RunAndWaitOptions
	mu       sync.Mutex
	recvd    bool
	n        int
	failFrom int
	out      chan *types.AttachWorkloadMessage
}

func (s *fakeRunAndWaitStream) Context() context.Context     { return s.ctx }
func (s *fakeRunAndWaitStream) SetHeader(metadata.MD) error  { return nil }
func (s *fakeRunAndWaitStream) SendHeader(metadata.MD) error { return nil }
func (s *fakeRunAndWaitStream) SetTrailer(metadata.MD)       {}
func (s *fakeRunAndWaitStream) SendMsg(any) error            { return nil }
func (s *fakeRunAndWaitStream) RecvMsg(any) error            { return io.EOF }
func (s *fakeRunAndWaitStream) Recv() (*pb.RunAndWaitOptions, error) {
	s.mu.Lock()
	defer s.mu.Unlock()
	if s.recvd {
		return nil, io.EOF
	}
	s.recvd = true
	return s.req, nil
}
func (s *fakeRunAndWaitStream) Send(m *pb.AttachWorkloadMessage) error {
	s.mu.Lock()
	s.n++
	n := s.n
	s.mu.Unlock()
	if m.StdStreamType != pb.StdStreamType_TYPEWORKLOADID {
		t := types.Stdout
		switch m.StdStreamType {
		case pb.StdStreamType_ERUERROR:
			t = types.EruError
		case pb.StdStreamType_STDERR:
			t = types.Stderr
		}
		s.out <- &types.AttachWorkloadMessage{WorkloadID: m.WorkloadId, Data: m.Data, StdStreamType: t}
	}
	if s.failFrom > 0 && n >= s.failFrom {
		return errors.New("verif: transport is closing")
	}
	return nil
}

// runAndWaitRPC drives run-and-wait through rpc.Vibranium.RunAndWait (sync mode).
// The returned channel closes when the rpc handler returned.
func (d *driver) runAndWaitRPC(ctx context.Context, o *Op) (<-chan *types.AttachWorkloadMessage, error) {
	do := d.deployOpts(o)
	res := map[string][]byte{}
	for k, v := range do.Resources {
		b, _ := json.Marshal(v)
		res[k] = b
	}
	req := &pb.RunAndWaitOptions{DeployOptions: &pb.DeployOptions{
		Name: do.Name, Entrypoint: &pb.EntrypointOptions{Name: do.Entrypoint.Name}, Podname: do.Podname, Image: do.Image,
		Count: int32(do.Count), DeployStrategy: pb.DeployOptions_AUTO, OpenStdin: do.OpenStdin, Resources: res,
	}}
	st := &fakeRunAndWaitStream{ctx: ctx, req: req, failFrom: o.RPCSendFailFrom, out: make(chan *types.AttachWorkloadMessage, 64)}
	v := rpc.New(d.w.C, d.w.Cfg, make(chan struct{}))
	errCh := make(chan error, 1)
	go func() {
		err := v.RunAndWait(st)
		errCh <- err
		close(st.out)
	}()
	// a refusal (validation) comes back at once with nothing sent; otherwise the stream carries everything
	select {
	case m, ok := <-st.out:
		if !ok {
			if err := <-errCh; err != nil {
				return nil, err
			}
			ch := make(chan *types.AttachWorkloadMessage)
			close(ch)
			return ch, nil
		}
		ch := make(chan *types.AttachWorkloadMessage, 64)
		ch <- m
		go func() {
			for x := range st.out {
				ch <- x
			}
			close(ch)
		}()
		return ch, nil
	}
}
