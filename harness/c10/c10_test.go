package c10

import (
	"fmt"
	"testing"

	"verifharness/cw"
	"verifharness/vh"
)

func TestC10(t *testing.T) {
	prop := vh.PropEnv("C10")
	r := vh.New(t, prop, "hist")
	r.Shard = 5
	r.Coq("From Verif Require Import Base.Effects Calcium.World Calcium.Ops Calcium.Run.", "Run.case", "Run.agree", okFn(prop))
	kinds := []string{"create", "create", "create", "remove", "remove", "dissociate", "realloc", "realloc", "replace", "setnode", "addnode", "removenode"}
	if prop == "C12" {
		kinds = []string{"create", "create", "create", "create", "remove", "realloc", "setnode"}
	}

	// ---- corpus: fixed scenarios, each with a specific fault (witnesses of the findings first)
	corpus := []struct {
		name  string
		ops   []Op
		fault int // index into ops of the faulted call (-1 none)
		f     FaultSpec
		small bool // one pod, one 4-core node
	}{
		{"create-alloc-second-node", []Op{{Kind: "create", Pod: 0, Count: 3, CPU: 50, Mem: 400}}, 0, FaultSpec{Method: "Alloc", Target: "*", Ord: 1}, false},
		{"create-processing-first-node", []Op{{Kind: "create", Pod: 0, Count: 2, CPU: 50, Mem: 100}}, 0, FaultSpec{Method: "CreateProcessing", Target: "*", Ord: 0}, false},
		{"create-log-processing", []Op{{Kind: "create", Pod: 0, Count: 1, CPU: 50, Mem: 100}}, 0, FaultSpec{Method: "Log", Target: "create-processing", Ord: 0}, false},
		{"create-start-fails", []Op{{Kind: "create", Pod: 0, Count: 3, CPU: 50, Mem: 100}}, 0, FaultSpec{Method: "VirtualizationStart", Target: "*", Ord: 1}, false},
		{"create-getnode-fails", []Op{{Kind: "create", Pod: 0, Count: 2, CPU: 50, Mem: 100}}, 0, FaultSpec{Method: "GetNode", Target: "*", Ord: 0}, false},
		{"realloc-update-fails", []Op{{Kind: "create", Pod: 0, Count: 1, CPU: 50, Mem: 100}, {Kind: "realloc", CPU: 50, Mem: 100}}, 1, FaultSpec{Method: "UpdateWorkload", Target: "*", Ord: 0}, false},
		{"realloc-engine-fails", []Op{{Kind: "create", Pod: 0, Count: 1, CPU: 50, Mem: 100}, {Kind: "realloc", CPU: 50, Mem: 100}}, 1, FaultSpec{Method: "VirtualizationUpdateResource", Target: "*", Ord: 0}, false},
		{"realloc-plugin-write-fails", []Op{{Kind: "create", Pod: 0, Count: 1, CPU: 50, Mem: 100}, {Kind: "realloc", CPU: 50, Mem: 100}}, 1, FaultSpec{Method: "Plugin.SetNodeResourceUsage", Target: "*", Ord: 0}, false},
		{"create-plugin-write-fails", []Op{{Kind: "create", Pod: 0, Count: 2, CPU: 50, Mem: 100}}, 0, FaultSpec{Method: "Plugin.SetNodeResourceUsage", Target: "*", Ord: 0}, false},
		{"dissociate-usage-decr-fails", []Op{{Kind: "create", Pod: 0, Count: 2, CPU: 100, Mem: 100}, {Kind: "dissociate"}}, 1, FaultSpec{Method: "SetNodeResourceUsage", Target: "*", Ord: 0}, true},
		{"setnode-meta-late-info-fails", []Op{{Kind: "create", Pod: 0, Count: 1, CPU: 100, Mem: 100}, {Kind: "setnode", Node: 0, Bypass: 1, Label: 3, SetMem: true, Delta: true, Mem: 500}}, 1, FaultSpec{Method: "GetNodeResourceInfo", Target: "*", Ord: 1}, true},
		{"fill-zero-count-node", []Op{{Kind: "create", Pod: 0, Count: 1, CPU: 50, Mem: 100, Strategy: "FILL", Limit: 1}, {Kind: "create", Pod: 0, Count: 1, CPU: 50, Mem: 100, Strategy: "FILL", Limit: 2}}, -1, FaultSpec{}, false},
		{"remove-engine-fails", []Op{{Kind: "create", Pod: 0, Count: 2, CPU: 50, Mem: 100}, {Kind: "remove", Force: true}}, 1, FaultSpec{Method: "VirtualizationRemove", Target: "*", Ord: 0}, false},
		{"removenode-plugin-fails", []Op{{Kind: "removenode", Node: 2}}, 0, FaultSpec{Method: "RemoveNode", Target: "n2", Ord: 1}, false},
		{"setnode-update-fails", []Op{{Kind: "setnode", Node: 1, SetMem: true, Delta: true, Mem: 500}}, 0, FaultSpec{Method: "UpdateNodes", Target: "*", Ord: 0}, false},
		{"replace-remove-old-fails", []Op{{Kind: "create", Pod: 0, Count: 1, CPU: 50, Mem: 100}, {Kind: "replace"}}, 1, FaultSpec{Method: "RemoveWorkload", Target: "*", Ord: 0}, false},
		{"addnode-store-fails", []Op{{Kind: "addnode", Node: 7, Pod: 1, CPU: 400, Mem: 1000}}, 0, FaultSpec{Method: "AddNode", Target: "n7", Ord: 1}, false},
		{"create-add-workload-fails-late", []Op{{Kind: "create", Pod: 0, Count: 5, CPU: 50, Mem: 100}}, 0, FaultSpec{Method: "AddWorkload", Target: "*", Ord: 3}, false},
		{"create-inspect-fails", []Op{{Kind: "create", Pod: 1, Count: 4, CPU: 50, Mem: 100}}, 0, FaultSpec{Method: "VirtualizationInspect", Target: "*", Ord: 2}, false},
		{"create-log-workload-fails", []Op{{Kind: "create", Pod: 0, Count: 2, CPU: 50, Mem: 100}}, 0, FaultSpec{Method: "Log", Target: "create-workload", Ord: 0}, false},
		{"create-log-workload-fails-2nd", []Op{{Kind: "create", Pod: 0, Count: 3, CPU: 100, Mem: 100, Bind: true}}, 0, FaultSpec{Method: "Log", Target: "create-workload", Ord: 1}, true},
		{"replace-log-workload-fails", []Op{{Kind: "create", Pod: 0, Count: 1, CPU: 50, Mem: 100}, {Kind: "replace"}}, 1, FaultSpec{Method: "Log", Target: "create-workload", Ord: 0}, false},
		{"bound-start-2nd-fails", []Op{{Kind: "create", Pod: 0, Count: 3, CPU: 100, Mem: 100, Bind: true}}, 0, FaultSpec{Method: "VirtualizationStart", Target: "*", Ord: 1}, true},
		{"bound-start-3rd-fails", []Op{{Kind: "create", Pod: 0, Count: 3, CPU: 100, Mem: 100, Bind: true}}, 0, FaultSpec{Method: "VirtualizationStart", Target: "*", Ord: 2}, true},
		{"bound-addworkload-2nd-fails", []Op{{Kind: "create", Pod: 0, Count: 3, CPU: 100, Mem: 100, Bind: true}}, 0, FaultSpec{Method: "AddWorkload", Target: "*", Ord: 1}, true},
		{"addnode-duplicate", []Op{{Kind: "create", Pod: 0, Count: 2, CPU: 50, Mem: 100}, {Kind: "addnode", Node: 0, Pod: 0, CPU: 400, Mem: 1000}, {Kind: "addnode", Node: 1, Pod: 1, CPU: 400, Mem: 2000}}, -1, FaultSpec{}, false},
		{"addnode-missing-pod", []Op{{Kind: "addnode", Node: 7, Pod: 5, CPU: 400, Mem: 1000}}, -1, FaultSpec{}, false},
		{"remove-missing-workload", []Op{{Kind: "create", Pod: 0, Count: 1, CPU: 50, Mem: 100}, {Kind: "remove", IDs: []string{"99.n0.0"}, Force: true}, {Kind: "dissociate", IDs: []string{"99.n0.0"}}, {Kind: "realloc", IDs: []string{"99.n0.0"}, CPU: 50, Mem: 100}}, -1, FaultSpec{}, false},
		{"no-fault-mixed", []Op{{Kind: "create", Pod: 0, Count: 4, CPU: 100, Mem: 300}, {Kind: "create", Pod: 1, Count: 2, CPU: 50, Mem: 700}, {Kind: "remove", Force: false}, {Kind: "dissociate"}}, -1, FaultSpec{}, false},
	}
	for _, c := range corpus {
		d := newDriver(t, r.Rng, true)
		h := &history{Strict: true}
		if c.small {
			d.setupSmall(h)
		} else {
			d.setup(h, 2, 3, 1000)
		}
		for i, o := range c.ops {
			d.opi++
			o.Opi = d.opi
			if len(o.IDs) == 0 && (o.Kind == "remove" || o.Kind == "dissociate" || o.Kind == "realloc" || o.Kind == "replace") {
				live := d.liveList()
				if len(live) == 0 {
					continue
				}
				o.IDs = []string{live[0].Canon}
			}
			var f *FaultSpec
			if i == c.fault {
				ff := c.f
				f = &ff
			}
			st := d.run(o, f)
			if st.Hit == "" {
				st.Fault = nil
			}
			h.Steps = append(h.Steps, st)
		}
		emit(r, h, map[string]any{"corpus": c.name})
		r.Count("corpus")
		d.w.Close()
	}

	// ---- concurrent pairs through the gate (see conc.go)
	concurrentPairs(t, r)

	// ---- thorough: every call index of the (first faultable) operation of each corpus scenario
	{
		for _, c := range corpus {
			if c.fault < 0 {
				continue
			}
			// quick: every fault address of a 3-instance cpu-bound deployment on one node; thorough: of every corpus scenario
			// ... and of a dissociation and of a set-node that changes node metadata and capacity (small world)
			if r.Tier != "thorough" && c.name != "bound-start-2nd-fails" && c.name != "dissociate-usage-decr-fails" && c.name != "setnode-meta-late-info-fails" {
				continue
			}
			// fault-free run to learn the calls of the operation
			runScenario := func(f *FaultSpec) (*history, []cw.Call) {
				d := newDriver(t, r.Rng, true)
				defer d.w.Close()
				h := &history{Strict: true}
				if c.small {
					d.setupSmall(h)
				} else {
					d.setup(h, 2, 3, 1000)
				}
				var log []cw.Call
				for i, o := range c.ops {
					d.opi++
					o.Opi = d.opi
					if len(o.IDs) == 0 && (o.Kind == "remove" || o.Kind == "dissociate" || o.Kind == "realloc" || o.Kind == "replace") {
						live := d.liveList()
						if len(live) == 0 {
							continue
						}
						o.IDs = []string{live[0].Canon}
					}
					var ff *FaultSpec
					if i == c.fault {
						ff = f
					}
					st := d.run(o, ff)
					if i == c.fault {
						log = d.w.IC.Log()
						if st.Hit == "" {
							st.Fault = nil
						}
					}
					h.Steps = append(h.Steps, st)
				}
				return h, log
			}
			_, log := runScenario(nil)
			seen := map[string]bool{}
			mcount := map[string]int{}
			for _, cl := range log {
				if cl.Bg {
					continue
				}
				mord := mcount[cl.Method]
				mcount[cl.Method] = mord + 1
				if cl.Party == "lock" && cl.Method == "Unlock" {
					continue
				}
				// container ids differ between runs only in their uniq suffix: address engine calls by node
				spec := FaultSpec{Method: cl.Method, Target: cl.Target, Ord: cl.Ord}
				if cl.Party == "engine" && cl.Node != "" && cl.Target != cl.Node || cl.Method == "AddWorkload" || cl.Method == "RemoveWorkload" || cl.Method == "UpdateWorkload" || cl.Method == "GetWorkload" || cl.Method == "GetWorkloads" || cl.Method == "CreateLock" || cl.Party == "lock" {
					spec = FaultSpec{Method: cl.Method, Target: cl.Node, Ord: cl.NodeOrd, ByNode: true}
					if cl.Node == "" {
						spec = FaultSpec{Method: cl.Method, Target: "*", Ord: mord}
					}
				}
				key := fmt.Sprintf("%s/%s/%d/%v", spec.Method, spec.Target, spec.Ord, spec.ByNode)
				if seen[key] {
					continue
				}
				seen[key] = true
				sp := spec
				h, _ := runScenario(&sp)
				emit(r, h, map[string]any{"corpus": c.name, "enumerated": true})
				r.Count("enumerated")
			}
		}
	}

	// ---- random histories
	n := r.N(8, 300)
	for i := 0; i < n; i++ {
		strict := r.Rng.Intn(2) == 0
		d := newDriver(t, r.Rng, strict)
		h := &history{Strict: strict}
		d.setup(h, 2, 3, []int64{1000, 1000, 600}[r.Rng.Intn(3)])
		calls := 3 + r.Rng.Intn(10)
		faultAt := -1
		if r.Rng.Intn(10) < 7 {
			faultAt = r.Rng.Intn(calls)
		}
		faulted := false
		for k := 0; k < calls; k++ {
			o, ok := d.randomOp(kinds)
			if !ok {
				o, _ = d.randomOp([]string{"create"})
			}
			var f *FaultSpec
			if !faulted && faultAt >= 0 && k >= faultAt {
				f = d.armFor(o)
			}
			s := d.run(o, f)
			if s.Hit != "" {
				faulted = true
			} else {
				s.Fault = nil
			}
			h.Steps = append(h.Steps, s)
		}
		emit(r, h, nil)
		d.w.Close()
	}
	r.Finish("histories of 3-12 API calls (create/remove/dissociate/realloc/replace/set-node/add-node/remove-node) over 2 pods x 3 nodes on the real Calcium with at most one injected fault; corpus of fixed fault scenarios first; non-trivial = a fault was hit or a call returned an error")
}

// concurrentPairs: two operations on workloads in different pods run concurrently, alternating call by call;
// the observation is emitted as the sequential history A;B (Interleave.v: they commute) next to its sequential twin.
func concurrentPairs(t *testing.T, r *vh.Run) {
	scs := []struct {
		name    string
		mk      func(idA, idB string, nodeB int) (Op, Op)
		fault   *FaultSpec
		faultOn int
	}{
		{"realloc-realloc", func(a, b string, nb int) (Op, Op) {
			return Op{Kind: "realloc", IDs: []string{a}, CPU: 50, Mem: 100}, Op{Kind: "realloc", IDs: []string{b}, CPU: 100, Mem: 200}
		}, nil, -1},
		{"realloc-fails-dissociate", func(a, b string, nb int) (Op, Op) {
			return Op{Kind: "realloc", IDs: []string{a}, CPU: 50, Mem: 100}, Op{Kind: "dissociate", IDs: []string{b}}
		}, &FaultSpec{Method: "UpdateWorkload", Target: "*", Ord: 0}, 0},
		{"remove-setnode", func(a, b string, nb int) (Op, Op) {
			return Op{Kind: "remove", IDs: []string{a}, Force: true}, Op{Kind: "setnode", Node: nb, SetMem: true, Delta: true, Mem: 500}
		}, nil, -1},
		{"dissociate-remove-fails", func(a, b string, nb int) (Op, Op) {
			return Op{Kind: "dissociate", IDs: []string{a}}, Op{Kind: "remove", IDs: []string{b}, Force: true}
		}, &FaultSpec{Method: "VirtualizationRemove", Target: "*", Ord: 0}, 1},
	}
	for _, s := range scs {
		build := func() (*driver, *history) {
			d := newDriver(t, r.Rng, true)
			h := &history{Strict: true}
			d.setup(h, 2, 1, 1000) // one node per pod: the placement is deterministic, twin and concurrent world agree
			for _, pod := range []int{0, 1} {
				d.opi++
				h.Steps = append(h.Steps, d.run(Op{Kind: "create", Opi: d.opi, Pod: pod, Count: 1, CPU: 50, Mem: 100}, nil))
			}
			return d, h
		}
		pick := func(d *driver) (string, string, int, bool) {
			idA, idB, nodeB := "", "", -1
			for _, wl := range d.liveList() {
				if wl.Pod == podName(0) {
					idA = wl.Canon
				}
				if wl.Pod == podName(1) {
					idB, nodeB = wl.Canon, num(wl.Node)
				}
			}
			return idA, idB, nodeB, idA != "" && idB != ""
		}
		// the sequential twin
		d1, h1 := build()
		idA, idB, nodeB, ok := pick(d1)
		if !ok {
			r.Count("conc-setup-failed")
			d1.w.Close()
			continue
		}
		a, b := s.mk(idA, idB, nodeB)
		d1.opi++
		a.Opi = d1.opi
		d1.opi++
		b.Opi = d1.opi
		var fa, fb *FaultSpec
		if s.fault != nil {
			ff := *s.fault
			if s.faultOn == 0 {
				fa = &ff
			} else {
				fb = &ff
			}
		}
		stA := d1.run(a, fa)
		if stA.Hit == "" {
			stA.Fault = nil
		}
		stB := d1.run(b, fb)
		if stB.Hit == "" {
			stB.Fault = nil
		}
		nsetup := len(h1.Steps)
		h1.Steps = append(h1.Steps, stA, stB)
		emit(r, h1, map[string]any{"corpus": "conc-twin-" + s.name})
		d1.w.Close()

		// the concurrent run
		d2, h2 := build()
		if len(h2.Steps) != nsetup || h2.Steps[nsetup-1].SnapCoq != h1.Steps[nsetup-1].SnapCoq {
			r.Count("conc-setup-differs")
			d2.w.Close()
			continue
		}
		d2.opi += 2
		oa, ob, ls, unowned := d2.runPair(concPair{name: s.name, a: a, b: b, fault: s.fault, faultOn: s.faultOn})
		oa.Snap, oa.SnapCoq = stA.Snap, stA.SnapCoq
		h2.Steps = append(h2.Steps, oa, ob)
		emit(r, h2, map[string]any{"corpus": "conc-" + s.name, "concurrent": true})
		r.Count("concurrent-pair")
		sw := ls.switches / 4 * 4
		if sw > 12 {
			sw = 12
		}
		r.Count(fmt.Sprintf("conc-switches>=%d", sw))
		if len(unowned) > 0 {
			r.Count("conc-unowned-calls")
			t.Logf("concurrent pair %s: %d calls not attributed, e.g. %s/%s/%s", s.name, len(unowned), unowned[0].Party, unowned[0].Method, unowned[0].Target)
		}
		if ob.SnapCoq != stB.SnapCoq {
			t.Errorf("concurrent pair %s: the final state differs from the sequential history's\n conc: %s\n seq:  %s", s.name, ob.SnapCoq, stB.SnapCoq)
		}
		if oa.Err != stA.Err || ob.Err != stB.Err {
			t.Errorf("concurrent pair %s: errors differ: conc (%d,%d) seq (%d,%d)", s.name, oa.Err, ob.Err, stA.Err, stB.Err)
		}
		d2.w.Close()
	}
}
