// Package deploypath drives the REAL deploy path end to end on a calcium world
// (harness/cw: real Calcium, embedded etcd, real cpumem plugin behind cobalt, fake
// engine): Calcium.CalculateCapacity, then Calcium.CreateWorkload with the same
// options, and emits every case for coq/Calcium/DeployPath.v: the candidate nodes
// (capacity and usage as the plugin stores them), the deploy status, what the
// manager reported, the plan CalculateCapacity returned, the instances
// CreateWorkload really created per node and whether every planned allocation was
// accepted.
package deploypath

import (
	"context"
	"errors"
	"fmt"
	"math"
	"testing"

	"verifharness/cw"
	"verifharness/vh"

	enginetypes "github.com/projecteru2/core/engine/types"
	"github.com/projecteru2/core/resource/cobalt"
	ctypes "github.com/projecteru2/core/resource/plugins/cpumem/types"
	pluginmocks "github.com/projecteru2/core/resource/plugins/mocks"
	plugintypes "github.com/projecteru2/core/resource/plugins/types"
	resourcetypes "github.com/projecteru2/core/resource/types"
	"github.com/projecteru2/core/strategy"
	"github.com/projecteru2/core/types"
)

const plugin = "cpumem"

func cstr(x string) string {
	for i := 0; i < len(x); i++ {
		c := x[i]
		if !(c >= '0' && c <= '9' || c >= 'a' && c <= 'z' || c >= 'A' && c <= 'Z' || c == '_' || c == '-') {
			return vh.Str(x)
		}
	}
	return "\"" + x + "\"%string"
}
func zmap(m map[string]int) string {
	it := []string{}
	for _, k := range vh.SortedKeys(m) {
		it = append(it, vh.Pair(cstr(k), vh.Z(int64(m[k]))))
	}
	return vh.List(it)
}
func zmap64(m map[string]int64) string {
	it := []string{}
	for _, k := range vh.SortedKeys(m) {
		it = append(it, vh.Pair(cstr(k), vh.Z(m[k])))
	}
	return vh.List(it)
}
func smap(m map[string]string) string {
	it := []string{}
	for _, k := range vh.SortedKeys(m) {
		it = append(it, vh.Pair(cstr(k), cstr(m[k])))
	}
	return vh.List(it)
}
func coqNR(r *ctypes.NodeResource) string {
	return fmt.Sprintf("(mkNR %s %s %s %s %s)", vh.F64(r.CPU), zmap(r.CPUMap), vh.Z(r.Memory), zmap64(r.NUMAMemory), smap(r.NUMA))
}
func coqPlan(m map[string]int) string {
	it := []string{}
	for _, k := range vh.SortedKeys(m) {
		it = append(it, vh.Pair(cstr(k), vh.ZI(m[k])))
	}
	return vh.List(it)
}
func coqStrategy(s string) string {
	switch s {
	case strategy.Auto:
		return "Auto"
	case strategy.Fill:
		return "Fill"
	case strategy.Each:
		return "Each"
	case strategy.Global:
		return "Global"
	case strategy.Drained:
		return "Drained"
	}
	return "Other"
}

func classify(plan map[string]int, err error) (string, string) {
	switch {
	case err == nil:
		return "(Model.Ok " + coqPlan(plan) + ")", "ok"
	case errors.Is(err, types.ErrAlreadyFilled):
		return "(AlreadyFilled [])", "already-filled"
	case errors.Is(err, types.ErrInvaildDeployStrategy):
		return "(Err EInvalidStrategy)", "err-strategy"
	case errors.Is(err, types.ErrInvaildDeployCount), errors.Is(err, types.ErrEmptyCount):
		// CreateWorkload validates the options first and refuses a zero count itself
		return "(Err EInvalidCount)", "err-count"
	case errors.Is(err, types.ErrInsufficientResource):
		return "(Err EInsufficientResource)", "err-resource"
	case errors.Is(err, types.ErrInsufficientCapacity):
		return "(Err EInsufficientCapacity)", "err-capacity"
	}
	return "Model.OutOfFuel", "err-other:" + err.Error()
}

// scripted is a second resource plugin: it offers the scripted capacity / usage /
// rate / weight for some nodes and accepts every other call with an empty answer.
type scripted struct {
	*pluginmocks.Plugin
	caps map[string]*plugintypes.NodeDeployCapacity
}

func (p *scripted) Name() string { return "scripted" }
func (p *scripted) AddNode(context.Context, string, resourcetypes.RawParams, *enginetypes.Info) (*plugintypes.AddNodeResponse, error) {
	return &plugintypes.AddNodeResponse{}, nil
}
func (p *scripted) RemoveNode(context.Context, string) (*plugintypes.RemoveNodeResponse, error) {
	return &plugintypes.RemoveNodeResponse{}, nil
}
func (p *scripted) GetNodesDeployCapacity(_ context.Context, nodenames []string, _ resourcetypes.RawParams) (*plugintypes.GetNodesDeployCapacityResponse, error) {
	r := &plugintypes.GetNodesDeployCapacityResponse{NodeDeployCapacityMap: map[string]*plugintypes.NodeDeployCapacity{}}
	for _, n := range nodenames {
		if c, ok := p.caps[n]; ok {
			cp := *c
			r.NodeDeployCapacityMap[n] = &cp
			r.Total += c.Capacity // ignored by the manager
		}
	}
	return r, nil
}
func (p *scripted) CalculateDeploy(_ context.Context, _ string, count int, _ resourcetypes.RawParams) (*plugintypes.CalculateDeployResponse, error) {
	r := &plugintypes.CalculateDeployResponse{}
	for i := 0; i < count; i++ {
		r.EnginesParams = append(r.EnginesParams, resourcetypes.RawParams{})
		r.WorkloadsResource = append(r.WorkloadsResource, resourcetypes.RawParams{})
	}
	return r, nil
}
func (p *scripted) CalculateRealloc(context.Context, string, resourcetypes.RawParams, resourcetypes.RawParams) (*plugintypes.CalculateReallocResponse, error) {
	return &plugintypes.CalculateReallocResponse{EngineParams: resourcetypes.RawParams{}, DeltaResource: resourcetypes.RawParams{}, WorkloadResource: resourcetypes.RawParams{}}, nil
}
func (p *scripted) CalculateRemap(context.Context, string, map[string]resourcetypes.RawParams) (*plugintypes.CalculateRemapResponse, error) {
	return &plugintypes.CalculateRemapResponse{EngineParamsMap: map[string]resourcetypes.RawParams{}}, nil
}
func (p *scripted) SetNodeResourceUsage(context.Context, string, resourcetypes.RawParams, resourcetypes.RawParams, []resourcetypes.RawParams, bool, bool) (*plugintypes.SetNodeResourceUsageResponse, error) {
	return &plugintypes.SetNodeResourceUsageResponse{}, nil
}
func (p *scripted) GetNodeResourceInfo(context.Context, string, []resourcetypes.RawParams) (*plugintypes.GetNodeResourceInfoResponse, error) {
	return &plugintypes.GetNodeResourceInfoResponse{}, nil
}
func (p *scripted) FixNodeResource(context.Context, string, []resourcetypes.RawParams) (*plugintypes.GetNodeResourceInfoResponse, error) {
	return &plugintypes.GetNodeResourceInfoResponse{}, nil
}

func (p *scripted) SetNodeResourceCapacity(context.Context, string, resourcetypes.RawParams, resourcetypes.RawParams, bool, bool) (*plugintypes.SetNodeResourceCapacityResponse, error) {
	return &plugintypes.SetNodeResourceCapacityResponse{}, nil
}
func (p *scripted) SetNodeResourceInfo(context.Context, string, resourcetypes.RawParams, resourcetypes.RawParams) (*plugintypes.SetNodeResourceInfoResponse, error) {
	return &plugintypes.SetNodeResourceInfoResponse{}, nil
}
func (p *scripted) GetMostIdleNode(_ context.Context, nodenames []string) (*plugintypes.GetMostIdleNodeResponse, error) {
	return &plugintypes.GetMostIdleNodeResponse{Nodename: nodenames[0], Priority: 0}, nil
}
func (p *scripted) GetMetricsDescription(context.Context) (*plugintypes.GetMetricsDescriptionResponse, error) {
	return &plugintypes.GetMetricsDescriptionResponse{}, nil
}
func (p *scripted) GetMetrics(context.Context, string, string) (*plugintypes.GetMetricsResponse, error) {
	return &plugintypes.GetMetricsResponse{}, nil
}

func coqNdc(v *plugintypes.NodeDeployCapacity) string {
	return fmt.Sprintf("(mkNdc %s %s %s %s)", vh.ZI(v.Capacity), vh.F64(v.Usage), vh.F64(v.Rate), vh.F64(v.Weight))
}

type request struct {
	bind     bool
	cpu      float64
	mem      int64
	kind     string
	resource resourcetypes.Resources
}

func mkRequest(bind bool, cpu float64, mem int64) request {
	raw := resourcetypes.RawParams{"cpu-request": cpu, "cpu-limit": cpu, "memory-request": mem, "memory-limit": mem}
	kind := "memory"
	if bind {
		raw["cpu-bind"] = true
		kind = "bound"
	} else if mem == 0 {
		kind = "unlimited"
	}
	return request{bind, cpu, mem, kind, resourcetypes.Resources{plugin: raw}}
}

func (q request) coq() string {
	return fmt.Sprintf("(mkReq %s false %s %s %s %s)", vh.Bool(q.bind), vh.F64(q.cpu), vh.F64(q.cpu), vh.Z(q.mem), vh.Z(q.mem))
}

type nodeSpec struct {
	name string
	ncpu int
	mem  int64
}

func readNode(t *testing.T, w *cw.World, node string) (*ctypes.NodeResource, *ctypes.NodeResource) {
	capR, usageR, _, err := w.RawRmgr.GetNodeResourceInfo(w.Ctx, node, nil, false)
	if err != nil {
		t.Fatalf("deploypath: GetNodeResourceInfo(%s): %v", node, err)
	}
	c, u := &ctypes.NodeResource{}, &ctypes.NodeResource{}
	if err := c.Parse(capR[plugin]); err != nil {
		t.Fatal(err)
	}
	if err := u.Parse(usageR[plugin]); err != nil {
		t.Fatal(err)
	}
	return c, u
}

// create runs CreateWorkload and returns the instances created per node, the
// number of messages carrying an error, and the error that ended the call (the
// error of the messages when nothing was created).
func create(w *cw.World, opts *types.DeployOptions) (map[string]int, int, error) {
	ch, err := w.C.CreateWorkload(w.Ctx, opts)
	if err != nil {
		return nil, 0, err
	}
	per := map[string]int{}
	failed := 0
	var first error
	for m := range ch {
		if m.Error != nil {
			failed++
			if first == nil {
				first = m.Error
			}
			continue
		}
		per[m.Nodename]++
	}
	w.Quiesce()
	if len(per) == 0 && first != nil {
		return nil, 0, first // the strategy (or an earlier step) refused: one error message, nothing planned
	}
	return per, failed, nil
}

// Stream emits n cases (quick / thorough as given) for property prop.
func Stream(t *testing.T, prop string, quick, thorough int) {
	r := vh.New(t, prop, "path")
	okFn := "Calcium.DeployPath.pok"
	if prop == "C03" {
		okFn = "Calcium.DeployPath.pok3"
	}
	r.Coq("From Verif Require Import Base.GoFloat Cpumem.Types Cobalt.Merge Strategy.Model Strategy.Glue Calcium.DeployPath.\nClose Scope Z_scope.",
		"Calcium.DeployPath.pcase", "Calcium.DeployPath.pagree", okFn)
	r.Shard = 60
	rng := r.Rng
	strategies := []string{strategy.Auto, strategy.Fill, strategy.Each, strategy.Global, strategy.Drained}
	n := r.N(quick, thorough)
	var w *cw.World
	var specs []nodeSpec
	var second *scripted
	left, worlds := 0, 0
	// the harness's own bookkeeping of the deploy status of (app, web): instances it created
	// plus in-flight markers it placed (NOT read back through store.GetDeployStatus)
	var webCount, inflight map[string]int
	ghosts := 0
	for i := 0; i < n; i++ {
		if left == 0 { // a fresh world with 1-4 nodes
			if w != nil {
				w.Close()
			}
			w = cw.New(t, cw.Options{})
			second = nil
			webCount, inflight = map[string]int{}, map[string]int{}
			worlds++
			if worlds%2 == 0 { // every second world has two plugins: the manager merges their answers
				second = &scripted{Plugin: &pluginmocks.Plugin{}, caps: map[string]*plugintypes.NodeDeployCapacity{}}
				mgr, ok := w.RawRmgr.(*cobalt.Manager)
				if !ok {
					t.Fatalf("deploypath: resource manager is %T, not *cobalt.Manager", w.RawRmgr)
				}
				mgr.AddPlugins(second)
			}
			if err := w.AddPod("pod"); err != nil {
				t.Fatal(err)
			}
			specs = nil
			k := []int{1, 2, 2, 3, 3, 4}[rng.Intn(6)]
			for j := 0; j < k; j++ {
				s := nodeSpec{fmt.Sprintf("n%d", j), []int{1, 2, 2, 4, 4, 6}[rng.Intn(6)], []int64{300, 1000, 1000, 2500, 4000}[rng.Intn(5)]}
				if err := w.AddNode(s.name, "pod", s.ncpu, s.mem); err != nil {
					t.Fatal(err)
				}
				specs = append(specs, s)
				if second != nil && rng.Intn(6) > 0 { // the second plugin does not offer every node
					second.caps[s.name] = &plugintypes.NodeDeployCapacity{
						Capacity: []int{0, 1, 2, 3, 5, 9, math.MaxInt64}[rng.Intn(7)],
						Usage:    float64(rng.Intn(9)) / 8, Rate: float64(rng.Intn(5)) / 16,
						Weight:   []float64{1, 1, 2, 100}[rng.Intn(4)]}
				}
			}
			left = 3 + rng.Intn(3)
		}
		left--
		// deploy-status situations: in-flight instances on nodes without a finished one, and
		// workloads of a sibling entrypoint whose name has "web" as a prefix
		statusCase := rng.Intn(2) == 0
		if statusCase {
			for _, sp := range specs {
				if webCount[sp.name] == 0 && rng.Intn(2) == 0 {
					k := 1 + rng.Intn(3)
					ghosts++
					pr := &types.Processing{Appname: "app", Entryname: "web", Nodename: sp.name, Ident: fmt.Sprintf("ghost%d", ghosts)}
					if err := w.RawStore.CreateProcessing(w.Ctx, pr, k); err != nil {
						t.Fatalf("deploypath: CreateProcessing: %v", err)
					}
					inflight[sp.name] += k
				}
			}
			if rng.Intn(4) > 0 {
				sib := &types.DeployOptions{
					Name: "app", Entrypoint: &types.Entrypoint{Name: "web2"}, Podname: "pod", Image: "img",
					Count: 1 + rng.Intn(3), DeployStrategy: strategy.Auto, NodeFilter: &types.NodeFilter{Podname: "pod"},
					Resources: mkRequest(false, 0, 10).resource,
				}
				create(w, sib) //nolint: only its effect on the store matters
			}
		}
		// request
		var q request
		switch rng.Intn(10) {
		case 0, 1, 2:
			q = mkRequest(true, []float64{1, 1, 2, 0.5, 1.5, 0.3}[rng.Intn(6)], []int64{0, 100, 250, 400}[rng.Intn(4)])
		case 3:
			q = mkRequest(false, []float64{0, 0.5}[rng.Intn(2)], 0) // unlimited capacity
		case 4:
			q = mkRequest(false, 9, 100) // more cpu than any node has: no capacity anywhere
		default:
			q = mkRequest(false, []float64{0, 0.5, 1}[rng.Intn(3)], []int64{50, 100, 250, 333, 700}[rng.Intn(5)])
		}
		s := strategies[rng.Intn(len(strategies))]
		limit := []int{0, 0, 0, 1, 2, 3}[rng.Intn(6)]
		if statusCase && rng.Intn(4) > 0 {
			s, limit = strategy.Auto, 1+rng.Intn(4)
		}
		names := []string{}
		for _, sp := range specs {
			names = append(names, sp.name)
		}
		// what the manager offers now (also used to aim at the feasibility boundary)
		reported, total, err := w.RawRmgr.GetNodesDeployCapacity(w.Ctx, names, q.resource)
		if err != nil {
			t.Fatalf("deploypath: GetNodesDeployCapacity: %v", err)
		}
		need := 1 + rng.Intn(6)
		if rng.Intn(3) == 0 && total > 0 && total < 40 {
			need = total + rng.Intn(3) - 1
			if need < 1 {
				need = 1
			}
		}
		if rng.Intn(25) == 0 {
			need = 0
		}
		if rng.Intn(25) == 0 && need > 0 { // (CreateWorkload checks a zero count before the strategy name)
			s = "NOPE"
		}
		opts := &types.DeployOptions{
			Name: "app", Entrypoint: &types.Entrypoint{Name: "web"}, Podname: "pod", Image: "img",
			Count: need, DeployStrategy: s, NodesLimit: limit, NodeFilter: &types.NodeFilter{Podname: "pod"},
			Resources: q.resource,
		}
		// inputs of the model, read before the calls
		nodeTerms := []string{}
		type jn struct {
			Name          string
			CPU           int
			Memory        int64
			UsedCPU       float64
			UsedMemory    int64
			Reported      int
			DeployedCount int
		}
		jns := []jn{}
		status := map[string]int{}
		for _, sp := range specs {
			if c := webCount[sp.name] + inflight[sp.name]; c > 0 {
				status[sp.name] = c
			}
		}
		for _, sp := range specs {
			c, u := readNode(t, w, sp.name)
			nodeTerms = append(nodeTerms, vh.Pair(cstr(sp.name), fmt.Sprintf("(mkNI %s %s)", coqNR(c), coqNR(u))))
			rep := 0
			if v, ok := reported[sp.name]; ok {
				rep = v.Capacity
			}
			jns = append(jns, jn{sp.name, sp.ncpu, sp.mem, u.CPU, u.Memory, rep, status[sp.name]})
		}
		repTerms := []string{}
		unlimited := false
		for _, k := range vh.SortedKeys(reported) {
			v := reported[k]
			repTerms = append(repTerms, fmt.Sprintf("(mkCapE %s %s %s %s)", cstr(k), vh.ZI(v.Capacity), vh.F64(v.Usage), vh.F64(v.Rate)))
			if v.Capacity == math.MaxInt64 {
				unlimited = true
			}
		}
		extra := "[]"
		if second != nil {
			it := []string{}
			for _, k := range vh.SortedKeys(second.caps) {
				it = append(it, vh.Pair(cstr(k), coqNdc(second.caps[k])))
			}
			extra = vh.List([]string{vh.List(it)})
		}
		// the two real calls
		msg, cerr := w.C.CalculateCapacity(w.Ctx, opts)
		var capPlan map[string]int
		if cerr == nil && msg != nil {
			capPlan = msg.NodeCapacities
		}
		capTerm, capClass := classify(capPlan, cerr)
		created, failed, werr := create(w, opts)
		crTerm, crClass := classify(created, werr)
		for k, v := range created {
			webCount[k] += v
		}
		afterTerms := []string{}
		for _, sp := range specs {
			_, u := readNode(t, w, sp.name)
			afterTerms = append(afterTerms, vh.Pair(cstr(sp.name), coqNR(u)))
		}

		term := fmt.Sprintf("(mkPC %s %s %s %s %s %s %s %s %s %s %s %s %s %s %s)",
			vh.ZI(100), vh.Z(-1), q.coq(), vh.List(nodeTerms), extra, coqPlan(status), coqStrategy(s), vh.ZI(need), vh.ZI(limit),
			vh.List(repTerms), vh.ZI(total), capTerm, crTerm, vh.ZI(failed), vh.List(afterTerms))
		desc := map[string]any{"strategy": s, "need": need, "limit": limit, "request": map[string]any{"bind": q.bind, "cpu": q.cpu, "memory": q.mem},
			"nodes": jns, "total": total, "calculate_capacity": map[string]any{"outcome": capClass, "plan": capPlan},
			"create": map[string]any{"outcome": crClass, "created": created, "failed_instances": failed}}
		r.Count("strategy=" + coqStrategy(s))
		r.Count("request=" + q.kind)
		r.Count("capacity=" + capClass)
		r.Count("create=" + crClass)
		r.Count(fmt.Sprintf("nodes=%d", len(specs)))
		if statusCase {
			r.Count("deploy-status-situation")
		}
		if second != nil {
			r.Count("plugins=2")
		} else {
			r.Count("plugins=1")
		}
		if unlimited {
			r.Count("unlimited-capacity")
		}
		tags := map[string]any{"strategy": s, "n": len(specs), "stream": "path", "request": q.kind, "need": need, "limit": limit}
		r.Add(term, desc, tags, len(specs) >= 2 && capClass != "err-strategy" && capClass != "err-count")
	}
	if w != nil {
		w.Close()
	}
	r.Finish("deploy path end to end on a real Calcium (embedded etcd, real cpumem plugin, fake engine; every second world with a second " +
		"scripted plugin offering its own capacity/usage/rate/weight for a subset of the nodes): worlds of 1-4 nodes " +
		"(1-6 cores, 300-4000 bytes) used for 3-6 consecutive requests each (so later cases see usage and deploy status left " +
		"by earlier creates); bound / memory-only / unlimited / unsatisfiable requests; all strategies, limit 0-3, a third of " +
		"the counts at the manager's total -1/0/+1; CalculateCapacity then CreateWorkload with the same options; " +
		"non-trivial = >= 2 nodes and not rejected by the strategy-name / count guard")
}
