package deploypath

import (
	"testing"

	"verifharness/vh"
)

// TestDeployPath runs the stream on its own (the registered entry point is
// harness/c01 TestStrategy, which calls Stream).
func TestDeployPath(t *testing.T) { Stream(t, vh.PropEnv("C01"), 40, 600) }
