package c25

import (
	"fmt"
	"os"
	"testing"

	sh "verifharness/c23/storeh"
	"verifharness/vh"
)

func node(n, p string) sh.NodeArg {
	return sh.NodeArg{N: sh.NData{Name: n, Ep: "verif://" + n, Pod: p}}
}
func wl(id, name, n string) *sh.WData { return &sh.WData{ID: id, Name: name, Node: n} }
func wst(id string, running bool) *sh.WStat { return &sh.WStat{ID: id, Running: running} }

func setup() []sh.Op {
	return []sh.Op{{Kind: "AddPod", P: "p0", D: "d"}, {Kind: "AddNode", Nodes: []sh.NodeArg{node("n0", "p0")}},
		{Kind: "AddWorkload", W: wl("w0", "a0_e0_s", "n0")}}
}

func corpus() [][]sh.Op {
	ws := func(id string, running bool, ttl int64) sh.Op {
		return sh.Op{Kind: "SetWorkloadStatus", St: wst(id, running), A: "a0", E: "e0", N: "n0", TTL: ttl}
	}
	ns := func(ttl int64) sh.Op { return sh.Op{Kind: "SetNodeStatus", N: "n0", P: "p0", TTL: ttl} }
	adv := func(d int64) sh.Op { return sh.Op{Kind: "Advance", TTL: d} }
	gw, gn := sh.Op{Kind: "GetWorkloadStatus", N: "w0"}, sh.Op{Kind: "GetNodeStatus", N: "n0"}
	return [][]sh.Op{
		// report, visible just before the deadline, gone at the deadline
		append(setup(), ws("w0", true, 5), adv(4), gw, adv(1), gw, ns(3), adv(2), gn, adv(1), gn),
		// same value again extends (etcd: KeepAliveOnce of the original lease); different value; changed ttl
		append(setup(), ws("w0", true, 5), adv(3), ws("w0", true, 5), adv(4), gw, adv(1), gw,
			ws("w0", true, 4), adv(2), ws("w0", false, 4), adv(3), gw, adv(1), gw,
			ws("w0", false, 4), adv(1), ws("w0", false, 9), adv(8), gw, adv(1), gw),
		// ttl 0 never expires; ttl 0 -> ttl>0 -> ttl 0; same value without ttl
		append(setup(), ws("w0", true, 0), adv(50), gw, ws("w0", true, 0), ws("w0", true, 3), adv(2), gw, ws("w0", true, 0), adv(9), gw,
			ws("w0", false, 0), gw),
		// reports for missing entities; node ttl 0; negative ttl deletes the node status
		{ws("w0", true, 5), ws("w0", true, 0), gw, sh.Op{Kind: "AddPod", P: "p0", D: "d"}, sh.Op{Kind: "AddNode", Nodes: []sh.NodeArg{node("n0", "p0")}},
			ns(0), ns(4), gn, ns(-1), gn, ns(4), adv(1), ns(4), adv(3), gn, adv(1), gn},
		// entity removal: workload removal deletes its status; node removal leaves the node status until it expires
		append(setup(), ws("w0", true, 9), ns(5), sh.Op{Kind: "RemoveWorkload", W: wl("w0", "a0_e0_s", "n0")}, gw,
			sh.Op{Kind: "AddWorkload", W: wl("w0", "a0_e0_s", "n0")}, gw, sh.Op{Kind: "RemoveNode", N: "n0", P: "p0"}, gn, adv(5), gn, ns(2)),
		// identical re-report (same value, same ttl, before expiry) after the entity is gone must be rejected:
		// node removed; workload record removed through another node name (its status record survives)
		append(setup(), ns(6), adv(1), sh.Op{Kind: "RemoveNode", N: "n0", P: "p0"}, ns(6), adv(4), gn, adv(2), gn),
		append(setup(), ws("w0", true, 6), adv(1), sh.Op{Kind: "RemoveWorkload", W: wl("w0", "a0_e0_s", "n1")}, ws("w0", true, 6), gw, adv(6),
			sh.Op{Kind: "AddWorkload", W: wl("w0", "a0_e0_s", "n0")}, gw),
		// ttl > 0, then the same value without ttl: the old deadline must be dropped
		append(setup(), ws("w0", true, 3), adv(1), ws("w0", true, 0), adv(5), gw, ws("w0", true, 4), adv(3), ws("w0", true, 0), adv(2), gw),
		// WITNESS (Redis): node status accepted for a node that does not exist
		{ns(3), gn},
		// report under other names than the workload's own: stored under another key, invisible through the workload
		append(setup(), sh.Op{Kind: "SetWorkloadStatus", St: wst("w0", true), A: "a0x", E: "e0", N: "n0", TTL: 5}, gw,
			sh.Op{Kind: "SetWorkloadStatus", St: wst("w0", true), A: "a0", E: "", N: "n0", TTL: 5}),
	}
}

func TestC25(t *testing.T) {
	r := vh.New(t, "C25", "status")
	r.Coq("From Verif Require Import Store.KVPrims Store.Ops Store.Case Store.Case25.", "Case25.case25", "Case25.agree25", "Case25.ok25")
	r.Shard = 12
	r.Extra("Local Open Scope string_scope.")
	r.Extra(sh.ProbeDef())
	sh.UseFastTmp(t)
	e := sh.NewEtcd(t)
	rd := sh.NewRedis(t)

	emit := func(ops []sh.Op, src string, dense bool) {
		s := sh.NewShadow()
		divs := make([]string, len(ops))
		mayFail := make([]bool, len(ops))
		nodeDiv := false
		for i, o := range ops {
			divs[i] = s.Apply(o)
			if divs[i] == "nodestatus-missing-node" {
				nodeDiv = true
			}
		}
		items, steps := sh.RunHistory(e, rd, ops, divs, mayFail, dense)
		reports, accepted, reads := 0, 0, 0
		for _, st := range steps {
			r.Count("op=" + st.Op.Kind)
			switch st.Op.Kind {
			case "SetNodeStatus", "SetWorkloadStatus":
				reports++
				cls := "accepted"
				if st.E.Err != "" {
					cls = "rejected:" + st.E.Err
				} else {
					accepted++
				}
				r.Count("etcd_report=" + cls)
				r.Count(fmt.Sprintf("ttl=%d", st.Op.TTL))
			case "GetNodeStatus", "GetWorkloadStatus":
				reads++
				if st.E.Err == "" {
					r.Count("etcd_read=" + st.E.Coq)
				} else {
					r.Count("etcd_read=" + st.E.Err)
				}
			}
		}
		r.Count("src=" + src)
		r.Count(fmt.Sprintf("redis_nodestatus_missing_node=%v", nodeDiv))
		desc := map[string]any{"source": src, "steps": steps, "etcd_time": map[bool]string{false: "virtual (lease revoke at the virtual deadline)", true: "real seconds"}[e.Real]}
		term := sh.CaseTerm(items)
		if !nodeDiv {
			r.Add("(true, true, "+term+")", desc, map[string]any{"redis_nodestatus_missing_node": false, "judged": "both", "src": src}, accepted >= 2 && reads >= 1)
		} else {
			// judged separately, so that the known Redis finding cannot hide an etcd violation
			r.Add("(true, false, "+term+")", desc, map[string]any{"redis_nodestatus_missing_node": false, "judged": "etcd", "src": src}, accepted >= 2 && reads >= 1)
			r.Add("(false, true, "+term+")", desc, map[string]any{"redis_nodestatus_missing_node": true, "judged": "redis", "src": src}, false)
		}
	}

	for _, ops := range corpus() {
		emit(ops, "corpus", true)
	}
	n := r.N(50, 700)
	if os.Getenv("VERIF_C25_REALONLY") != "" { // debugging aid: only the real-time histories
		n = 0
	}
	for i := 0; i < n; i++ {
		g := &sh.Gen{R: r.Rng, S: sh.NewShadow(), StatusHeavy: true, MaxTTL: 7, AvoidDiv: i%4 != 0}
		ops := setup()
		for _, o := range ops {
			g.S.Apply(o)
		}
		if i%3 == 0 {
			o := sh.Op{Kind: "AddNode", Nodes: []sh.NodeArg{node("n1", "p0")}}
			g.S.Apply(o)
			ops = append(ops, o)
		}
		if i%2 == 0 {
			o := sh.Op{Kind: "AddWorkload", W: wl("w1", "a0x_e0-t_s", "n0")}
			g.S.Apply(o)
			ops = append(ops, o)
		}
		k := 8 + r.Rng.Intn(18)
		for j := 0; j < k; j++ {
			o, _ := g.Next()
			ops = append(ops, o)
		}
		emit(ops, "random", false)
	}
	// real-time leases (thorough tier only): every Advance is 4 real seconds for
	// etcd, TTLs are 2 or 6 s, so that no read falls within 2 s of a deadline.
	if r.Tier == "thorough" {
		e.Real = true
		for i := 0; i < 12; i++ {
			g := &sh.Gen{R: r.Rng, S: sh.NewShadow(), StatusHeavy: true, AdvanceStep: 4, TTLs: []int64{2, 6}}
			ops := setup()
			for _, o := range ops {
				g.S.Apply(o)
			}
			nadv := 0
			for j := 0; j < 14; j++ {
				o, _ := g.Next()
				if o.Kind == "Advance" {
					if nadv >= 4 {
						continue
					}
					nadv++
				}
				ops = append(ops, o)
			}
			emit(ops, "real-time", false)
		}
		e.Real = false
	}
	r.Finish("histories of status reports (same/different value, ttl changes, ttl 0, negative ttl), entity add/remove, clock advances and status reads on both real stores; Redis time is miniredis virtual time, etcd leases expire by revoke at the virtual deadline (quick) and additionally in real seconds (thorough, source=real-time); non-trivial = at least 2 accepted reports and a status read")
}
