// Client modes R and S of the C26 harness: the macro operations drive the
// restart loop selfmon.run (mode R, backends BEtcdR / BRedisR, verif hook
// selfmon/export_verif.go VerifRun) and the re-registration loop of
// calcium.RegisterService (mode S, backends BEtcdS / BRedisS, verif hook
// cluster/calcium/verif_hooks.go VerifSetStore) over the real stores; see
// w_mop / w_mid with WRun / WService in Locks/Ephemeral.v.
//
//	MReg i    R: start selfmon.run of watcher i; S: call RegisterService of
//	          Calcium i (it blocks while the key is taken).  ResOk = the first
//	          registration attempt succeeded, ResExists = it was rejected: i is
//	          "pending" (retrying every second); at most one pending at a time
//	MLapse    as in the other modes
//	MTickAll  2.5 tick periods; every registrant that was pending makes one more
//	          attempt; a registrant whose registration lapsed is notified and
//	          (S) registers again at once / (R) pauses ConnectionTimeout and is
//	          pending from then on; 2.5 tick periods more if somebody registered
//	MStop i   R: cancel the watcher's context; S: call the unregister function
//	          (or cancel the context of a RegisterService that is still blocked)
//
// closed[i] = registrant i does NOT believe it holds the key: it has no
// successful registration whose expiry channel is still open.
package c26

import (
	"context"
	"errors"
	"fmt"
	"math/rand"
	"path/filepath"
	"sync"
	"sync/atomic"
	"testing"
	"time"

	"github.com/projecteru2/core/cluster"
	"github.com/projecteru2/core/cluster/calcium"
	enginefactory "github.com/projecteru2/core/engine/factory"
	"github.com/projecteru2/core/selfmon"
	"github.com/projecteru2/core/store"
	"github.com/projecteru2/core/types"
)

const (
	serviceBind     = "127.0.0.1:5001" // the same for every Calcium: one service key
	serviceKey      = "/services/" + serviceBind
	restartPause    = 2500 * time.Millisecond // selfmon.run's pause (config.ConnectionTimeout)
	attemptLimit    = 5 * time.Second         // an expected registration attempt shows up within this
	reRegisterLimit = 2 * time.Second         // S: a notified Calcium registers again at once
	lazyReturnLimit = 6 * time.Second         // a cancelled selfmon.run returns within this (it may be inside its pause)
)

// ---- the instrumented store ----

type attempt struct {
	err error
	at  time.Time
}

type registration struct {
	ch       <-chan struct{}
	stopDone bool
}

// regSpy is the real store with the two registration entry points instrumented:
// the call is delegated unchanged; its result, its time and the expiry channel
// of a successful registration are recorded (the caller gets the same channel),
// and the completion of the registration's stop function is recorded.
type regSpy struct {
	store.Store
	mu       sync.Mutex
	attempts []attempt
	inflight int
	reg      *registration // of the most recent successful attempt
}

func (s *regSpy) wrap(call func() (<-chan struct{}, func(), error)) (<-chan struct{}, func(), error) {
	s.mu.Lock()
	s.inflight++
	s.mu.Unlock()
	ch, stop, err := call()
	s.mu.Lock()
	s.inflight--
	s.attempts = append(s.attempts, attempt{err: err, at: time.Now()})
	var reg *registration
	if err == nil {
		reg = &registration{ch: ch}
		s.reg = reg
	}
	s.mu.Unlock()
	if err != nil {
		return ch, stop, err
	}
	return ch, func() {
		stop()
		s.mu.Lock()
		reg.stopDone = true
		s.mu.Unlock()
	}, nil
}

func (s *regSpy) StartEphemeral(ctx context.Context, path string, heartbeat time.Duration) (<-chan struct{}, func(), error) {
	return s.wrap(func() (<-chan struct{}, func(), error) { return s.Store.StartEphemeral(ctx, path, heartbeat) })
}

func (s *regSpy) RegisterService(ctx context.Context, addr string, expire time.Duration) (<-chan struct{}, func(), error) {
	return s.wrap(func() (<-chan struct{}, func(), error) { return s.Store.RegisterService(ctx, addr, expire) })
}

func (s *regSpy) count() int {
	s.mu.Lock()
	defer s.mu.Unlock()
	return len(s.attempts)
}

func (s *regSpy) successes() int {
	s.mu.Lock()
	defer s.mu.Unlock()
	n := 0
	for _, a := range s.attempts {
		if a.err == nil {
			n++
		}
	}
	return n
}

func (s *regSpy) at(k int) attempt {
	s.mu.Lock()
	defer s.mu.Unlock()
	return s.attempts[k]
}

func (s *regSpy) busy() bool {
	s.mu.Lock()
	defer s.mu.Unlock()
	return s.inflight > 0
}

func (s *regSpy) lastAt() time.Time {
	s.mu.Lock()
	defer s.mu.Unlock()
	if len(s.attempts) == 0 {
		return time.Time{}
	}
	return s.attempts[len(s.attempts)-1].at
}

// holds: the most recent attempt succeeded and its expiry channel is still open
func (s *regSpy) holds() bool {
	s.mu.Lock()
	defer s.mu.Unlock()
	n := len(s.attempts)
	return n > 0 && s.attempts[n-1].err == nil && s.reg != nil && !isClosed(s.reg.ch)
}

func (s *regSpy) channelClosed() bool {
	s.mu.Lock()
	defer s.mu.Unlock()
	return s.reg != nil && isClosed(s.reg.ch)
}

func (s *regSpy) stopped() bool {
	s.mu.Lock()
	defer s.mu.Unlock()
	return s.reg == nil || s.reg.stopDone
}

// monCluster is the cluster handed to ONE watcher of mode R: the real Calcium,
// with NodeStatusStream instrumented.  selfmon.monitor opens the stream first, so
// a call means "a monitor of this watcher started with this context"; the
// watcher believes it is the active one for as long as such a context is live.
type monCluster struct {
	cluster.Cluster
	mu   sync.Mutex
	ctxs []context.Context
}

func (m *monCluster) NodeStatusStream(ctx context.Context) chan *types.NodeStatus {
	m.mu.Lock()
	m.ctxs = append(m.ctxs, ctx)
	m.mu.Unlock()
	return m.Cluster.NodeStatusStream(ctx)
}

// live: some monitor of this watcher was started with a context that is not done
func (m *monCluster) live() bool {
	m.mu.Lock()
	defer m.mu.Unlock()
	for _, c := range m.ctxs {
		if c.Err() == nil {
			return true
		}
	}
	return false
}

// ---- one schedule ----

// crun is one start of a registrant: one call of selfmon.run / RegisterService.
type crun struct {
	cancel     context.CancelFunc
	done       chan struct{} // the call returned
	mu         sync.Mutex
	unregister func() // mode S: what RegisterService returned
	bad        string
}

// harness view of a registrant; it follows the model: idle (no registration, not
// retrying), pending (the interpreter's pending slot), believer (registered and
// not notified; doomed = etcd: the harness revoked its lease).
const (
	cIdle = iota
	cPending
	cBeliever
	cStuck
	// mode R: notified by the store (its expiry channel closed) but its monitor is
	// still running: it believes, it will not register again; not in the model
	cZombie
)

type client struct {
	st     int
	flag   bool // closed flag as of the last point at which the model steps this registrant: "does not believe"
	doomed bool
	// S: spy.count() when the harness revoked this registrant's lease (what it does
	// afterwards is its reaction to the notification)
	doomBase int
	// S: pending because its re-registration after a notification was rejected
	// (somebody registered while it was lapsed): it retries every heartbeat interval
	rereg bool
	spy   *regSpy
	cal   *calcium.Calcium // mode S
	mon   *monCluster      // mode R
	cur   *crun
}

// lazy joins: a cancelled selfmon.run returns only after its pause; the schedule
// does not wait for it (after the cancellation it makes no registration attempt),
// the test does at its end
var (
	notReturned  int64
	walCounter   int64
	engineInit   sync.Once
	calciumMutex sync.Mutex // calcium.New touches process-wide state (os.Args through the embedded cluster, engine cache)
)

func newCalcium(ctx context.Context, t *testing.T, b backend, hb time.Duration) (*calcium.Calcium, error) {
	cfg := types.Config{
		WALFile:             filepath.Join(t.TempDir(), fmt.Sprintf("wal-%d", atomic.AddInt64(&walCounter, 1))),
		HAKeepaliveInterval: 16 * time.Second,
		LockTimeout:         5 * time.Second,
		GlobalTimeout:       10 * time.Second,
		ConnectionTimeout:   2 * time.Second,
		MaxConcurrency:      64,
		Bind:                serviceBind,
		ProbeTarget:         "127.0.0.1:80",
		Etcd:                types.EtcdConfig{Prefix: "/verif", LockPrefix: "__lock__"},
	}
	cfg.GRPCConfig.ServiceHeartbeatInterval = hb
	if q, isRedis := b.(*redisBackend); isRedis {
		cfg.Store = types.Redis
		cfg.Redis = types.RedisConfig{Addr: q.srv.Addr(), LockPrefix: "lock"}
	}
	calciumMutex.Lock()
	defer calciumMutex.Unlock()
	engineInit.Do(func() { enginefactory.InitEngineCache(context.Background(), cfg, nil) })
	return calcium.New(ctx, cfg, t)
}

func runClientSchedule(t *testing.T, joins *sync.WaitGroup, sp spec, b backend) (out outcome) {
	out = outcome{b: b, n: sp.n}
	envCtx, envCancel := context.WithCancel(context.Background())
	cs := make([]*client, sp.n)
	var runs []*crun
	// teardown: everything is cancelled now; the returns are collected lazily
	defer func() {
		for _, r := range runs {
			r.cancel()
		}
		rs := runs
		joins.Add(1)
		go func() {
			defer joins.Done()
			for _, r := range rs {
				if !waitFor(lazyReturnLimit, func() bool { return isClosed(r.done) }) {
					atomic.AddInt64(&notReturned, 1)
					continue
				}
				r.mu.Lock()
				un := r.unregister
				r.mu.Unlock()
				if un != nil {
					guardedStop(un) // idempotent; a RegisterService that returned after the cleanup
				}
			}
			envCancel()
			b.close()
		}()
	}()
	invalid := func(why string) {
		if out.invalid == "" {
			out.invalid = fmt.Sprintf("op%d:%s", len(out.ops), why)
		}
	}
	note := func(s string) {
		if s != "" {
			out.notes = append(out.notes, fmt.Sprintf("op%d:%s", len(out.ops), s))
		}
	}

	// the collaborators
	var monitorCluster cluster.Cluster
	if sp.mode == "R" {
		c, err := newCalcium(envCtx, t, b, b.hb())
		if err != nil {
			invalid("calcium-new-failed")
			return out
		}
		monitorCluster = c
	}
	for i := range cs {
		cs[i] = &client{flag: true}
		if sp.mode == "S" {
			c, err := newCalcium(envCtx, t, b, b.hb())
			if err != nil {
				invalid("calcium-new-failed")
				return out
			}
			cs[i].cal = c
			cs[i].spy = &regSpy{Store: c.VerifStore()}
			c.VerifSetStore(cs[i].spy)
		} else {
			cs[i].spy = &regSpy{Store: b.store()}
			cs[i].mon = &monCluster{Cluster: monitorCluster}
		}
	}
	if !waitFor(watchdog, func() bool { ex, _, _, _ := b.look(); return !ex }) {
		invalid("key-present-at-start")
		return out
	}

	start := func(i int) *crun {
		ctx, cancel := context.WithCancel(context.Background())
		run := &crun{cancel: cancel, done: make(chan struct{})}
		runs = append(runs, run)
		c := cs[i]
		go func() {
			defer close(run.done)
			defer func() {
				if p := recover(); p != nil {
					run.mu.Lock()
					run.bad = "panic-in-client-loop"
					run.mu.Unlock()
				}
			}()
			if sp.mode == "R" {
				cfg := types.Config{HAKeepaliveInterval: b.hb(), ConnectionTimeout: restartPause, GlobalTimeout: 10 * time.Second}
				selfmon.VerifNew(int64(i), cfg, c.mon, c.spy).VerifRun(ctx)
				return
			}
			un, _ := c.cal.RegisterService(ctx)
			run.mu.Lock()
			run.unregister = un
			run.mu.Unlock()
		}()
		return run
	}
	pendingIdx := func() int {
		for i, c := range cs {
			if c.st == cPending {
				return i
			}
		}
		return -1
	}
	doomedIdx := func() int {
		for i, c := range cs {
			if c.st == cBeliever && c.doomed {
				return i
			}
		}
		return -1
	}
	keyPresent := func() bool { ex, _, _, _ := b.look(); return ex }
	// holding at store level: a live registration (its ticker refreshes the key)
	believes := func(c *client) bool { return c.st == cBeliever && c.spy.holds() }
	// the reported flag "does not believe".  R: observed from the watcher itself
	// (no monitor running); S: from the registrations of its Calcium
	notBelieving := func(c *client) bool {
		if sp.mode == "R" {
			return !c.mon.live()
		}
		return !believes(c)
	}
	flags := func() []bool {
		fl := make([]bool, sp.n)
		for i, c := range cs {
			fl[i] = c.flag
		}
		return fl
	}
	// align: see watcher mode.  An operation that frees the key while somebody is
	// pending starts at most alignSlack after that registrant's last attempt.
	align := func() {
		j := pendingIdx()
		if j < 0 || !keyPresent() {
			return
		}
		spy := cs[j].spy
		if time.Since(spy.lastAt()) <= alignSlack {
			return
		}
		c := spy.count()
		if cs[j].rereg {
			// S: see MTickAll - a missing heartbeat retry of a registrant whose rejected
			// re-registration was observed is itself an observation, not a timing failure
			limit := 5 * b.hb()
			if limit < 3*time.Second {
				limit = 3 * time.Second
			}
			if !waitFor(limit, func() bool { return spy.count() > c }) {
				note("pending-but-no-retry")
				cs[j].st, cs[j].rereg = cZombie, false
			}
			return
		}
		if !waitFor(attemptLimit, func() bool { return spy.count() > c }) {
			invalid("no-retry-while-aligning")
		}
	}
	lapsedLast := false    // mode S on etcd: the last operation was an MLapse that hit a believer
	contestedLast := false // mode S on etcd: the last operation was an MReg right after such an MLapse
	exec := func(o mop) {
		ob := observation{Res: "ResNone"}
		lapsedNow, contestedNow := false, false
		switch o.K {
		case kReg:
			c := cs[o.I]
			contestedNow = sp.mode == "S" && b.name() == "etcd" && lapsedLast
			base := c.spy.count()
			run := start(o.I)
			c.cur, c.doomed = run, false
			got := waitFor(watchdog, func() bool { return c.spy.count() > base || isClosed(run.done) })
			switch {
			case !got || c.spy.count() <= base:
				note("no-attempt-in-start")
				ob.Res, c.st = "ResOther", cPending
			case c.spy.at(base).err == nil:
				ob.Res, c.st = "ResOk", cBeliever
				note(b.registered(o.I))
				if sp.mode == "R" && !waitFor(watchdog, func() bool { return c.mon.live() }) {
					note("registered-but-monitor-not-started")
				}
				c.flag = notBelieving(c)
				if sp.mode == "S" && !waitFor(watchdog, func() bool { return isClosed(run.done) }) {
					note("registered-but-RegisterService-blocked")
					ob.Res = "ResOther"
				}
				if !c.spy.holds() {
					note("registered-but-not-holding")
				}
				c.flag = notBelieving(c)
			case errors.Is(c.spy.at(base).err, types.ErrKeyExists):
				ob.Res, c.st, c.flag = "ResExists", cPending, true
				if contestedNow {
					// the lapsed registrant was notified and registered again before this
					// call: not the order the schedule assumes (the model registers i here)
					invalid("order-not-as-assumed")
				}
			default:
				note("other-error-in-start")
				ob.Res, c.st, c.flag = "ResOther", cPending, true
			}
		case kLapse:
			align()
			if ex, owner, _, _ := b.look(); ex && b.name() == "etcd" && owner >= 0 && owner < len(cs) && cs[owner].st == cBeliever {
				c := cs[owner]
				if sp.contest && sp.mode == "S" {
					// an MReg may follow at once and must win against the notification of
					// the lapsed registrant, which comes with its next tick: revoke shortly
					// after a tick (ticks: every hb/3 from the registration on)
					period := b.hb() / 3
					if at := c.spy.lastAt(); !at.IsZero() && period > 200*time.Millisecond {
						waitFor(2*period, func() bool {
							ph := time.Since(at) % period
							return ph >= 30*time.Millisecond && ph <= period/3
						})
					}
				}
				c.doomed, c.doomBase = true, c.spy.count()
				lapsedNow = true
			}
			note(b.lapse())
		case kTick:
			p0 := pendingIdx()
			c0 := make([]int, sp.n)
			s0 := make([]int, sp.n)
			for i, c := range cs {
				c0[i], s0[i] = c.spy.count(), c.spy.successes()
			}
			time.Sleep(tickAll(b.hb()))
			// first tick round: a believer whose lease the harness revoked is notified:
			// the expiry channel of its registration closes (the store's part: a matter
			// of timing, validated) and then (S) it registers again at once (the
			// client's part: if no attempt follows the closed channel within
			// reRegisterLimit, that is what is observed and emitted)
			if j := doomedIdx(); j >= 0 {
				c := cs[j]
				if sp.mode == "S" {
					c0[j] = c.doomBase // its reaction may have begun before this MTickAll
				}
				if !waitFor(settleLimit, func() bool { return c.spy.channelClosed() || c.spy.count() > c0[j] }) {
					invalid("doomed-believer-not-notified")
				} else if sp.mode == "S" && !waitFor(reRegisterLimit, func() bool { return c.spy.count() > c0[j] }) {
					note("notified-but-no-re-registration")
				}
			}
			// the pending registrant makes one more attempt
			if p0 >= 0 && cs[p0].rereg {
				// S: its notification and its rejected re-registration have been observed;
				// it retries every heartbeat interval.  If no attempt shows up within
				// max(5 heartbeats, 3 s) - and the run's stall probe stays clean, which
				// the caller checks - that is what is observed and emitted
				limit := 5 * b.hb()
				if limit < 3*time.Second {
					limit = 3 * time.Second
				}
				if !waitFor(limit, func() bool { return cs[p0].spy.count() > c0[p0] }) {
					note("pending-but-no-retry")
					cs[p0].st, cs[p0].rereg = cZombie, false // no retry is expected from it any more
					p0 = -1
				}
			} else if p0 >= 0 {
				if !waitFor(attemptLimit, func() bool { return cs[p0].spy.count() > c0[p0] }) {
					invalid("no-retry-in-tick")
				}
			}
			// who was notified / who registered
			notified := -1
			for i, c := range cs {
				if c.st != cBeliever {
					continue
				}
				if c.spy.channelClosed() || (sp.mode == "S" && c.spy.count() > c0[i]) {
					notified = i
				}
			}
			registered := false
			if p0 >= 0 && cs[p0].spy.successes() > s0[p0] {
				c := cs[p0]
				c.st, c.doomed, c.rereg, registered = cBeliever, false, false, true
				if sp.mode == "S" && !waitFor(watchdog, func() bool { return isClosed(c.cur.done) }) {
					note("registered-but-RegisterService-blocked")
				}
				if sp.mode == "R" && !waitFor(watchdog, func() bool { return c.mon.live() }) {
					note("registered-but-monitor-not-started")
				}
				note(b.registered(p0))
			}
			if notified >= 0 {
				c := cs[notified]
				c.doomed = false
				reRegistered := sp.mode == "S" && c.spy.successes() > s0[notified]
				// R: the store-level notification is validated (the channel is closed);
				// the watcher's part is to stop monitoring: if its monitor is still
				// running reRegisterLimit later, that is what is observed and emitted
				stillMonitoring := sp.mode == "R" && !waitFor(reRegisterLimit, func() bool { return !c.mon.live() })
				switch {
				case stillMonitoring:
					note("notified-but-still-monitoring")
					c.st = cZombie // believes; no retry is expected from it
				case reRegistered:
					registered = true
					note(b.registered(notified))
				case sp.mode == "S" && c.spy.count() == c0[notified]:
					c.st = cIdle // notified, and it does not register again: emitted as observed
				case pendingIdx() < 0:
					c.st = cPending // R: after its pause; S: retrying every heartbeat interval
					c.rereg = sp.mode == "S"
					if sp.mode == "S" && !(sp.contest && keyPresent()) {
						// only a registrant that registered while this one was lapsed can
						// make the immediate re-registration fail (contest schedules)
						invalid("re-registration-rejected")
					}
				default:
					// two contenders: the model keeps one pending registrant only
					c.st = cIdle
					invalid("two-contenders")
				}
			}
			if registered {
				time.Sleep(tickAll(b.hb())) // the new holder ticks too
			}
			// settle: redis - one refresh of an existing key by a believer
			if b.name() == "redis" {
				waitFor(settleLimit, func() bool {
					any := false
					for _, c := range cs {
						any = any || believes(c)
					}
					ex, _, ttl, _ := b.look()
					return !(any && ex && ttl != int64(refreshOf(b.hb())/time.Millisecond))
				})
			}
			for _, c := range cs {
				c.flag = notBelieving(c)
			}
		case kStop:
			c := cs[o.I]
			switch c.st {
			case cPending:
				c.cur.cancel()
				if sp.mode == "S" && c.cur.unregisterFn() != nil {
					// a re-registering Calcium: RegisterService has returned long ago
					note(guardedStop(c.cur.unregisterFn()))
				} else if sp.mode == "S" {
					if !waitFor(watchdog, func() bool { return isClosed(c.cur.done) }) {
						note("timeout-in-stop")
					}
				}
				// R: no registration attempt starts after the cancellation
				if !waitFor(watchdog, func() bool { return !c.spy.busy() }) {
					note("attempt-in-flight-after-stop")
				}
				c.st, c.rereg = cIdle, false
				c.flag = notBelieving(c)
			case cBeliever, cZombie:
				align()
				if sp.mode == "S" {
					if un := c.cur.unregisterFn(); un != nil {
						note(guardedStop(un))
					} else {
						note("no-unregister-function")
					}
				} else {
					c.cur.cancel()
				}
				if !waitFor(watchdog, func() bool { return c.spy.stopped() }) {
					note("timeout-in-stop")
					c.st = cStuck
				} else {
					c.st = cIdle
				}
				c.doomed = false
				if sp.mode == "R" {
					waitFor(reRegisterLimit, func() bool { return !c.mon.live() })
				}
				c.flag = notBelieving(c)
			}
		}
		var n string
		ob.Key, ob.Owner, ob.TTL, n = b.look()
		if (o.K == kReg || o.K == kStop) && ob.Key {
			ob.TTL = 0 // Ephemeral.mask_ttl
		}
		note(n)
		if o.K == kTick || o.K == kStop {
			ob.Closed = flags()
		}
		lapsedLast, contestedLast = lapsedNow, contestedNow
		out.ops = append(out.ops, o)
		out.obs = append(out.obs, ob)
	}

	// generator rules (the model relies on them)
	forcedTick := func() bool {
		if pendingIdx() >= 0 && !keyPresent() {
			return true // a free key and a contender: the next retry takes it
		}
		// S on etcd: the notified registrant reacts within one tick; after the MReg of
		// a contest its notification has to be observed while the new holder holds
		return sp.mode == "S" && b.name() == "etcd" && (lapsedLast || contestedLast)
	}
	// contest (S, etcd, contest schedules only): an MReg right after the MLapse of a
	// believer, validated by its result (see kReg)
	contestOK := func(i int) bool {
		return sp.contest && sp.mode == "S" && b.name() == "etcd" && lapsedLast && pendingIdx() < 0 && cs[i].st == cIdle
	}
	legalReg := func(i int) bool {
		if pendingIdx() >= 0 || cs[i].st != cIdle {
			return false
		}
		// a lapsed believer is about to become a contender: no second one
		return !(doomedIdx() >= 0 && keyPresent())
	}
	legalStop := func(i int) bool { return cs[i].st == cPending || cs[i].st == cBeliever || cs[i].st == cZombie }
	legalLapse := func() bool { return doomedIdx() < 0 }
	if sp.fixed != nil {
		for _, o := range sp.fixed {
			if out.invalid != "" {
				return out
			}
			if o.K != kTick && forcedTick() && !(o.K == kReg && contestOK(o.I)) {
				exec(mop{kTick, 0})
			}
			if (o.K == kReg && !legalReg(o.I)) || (o.K == kLapse && !legalLapse()) {
				continue // not a legal operation of the harness: dropped
			}
			exec(o)
		}
	} else {
		rng := rand.New(rand.NewSource(sp.seed))
		for k := 0; k < sp.length && out.invalid == ""; k++ {
			if forcedTick() {
				var free []int
				for i := range cs {
					if contestOK(i) {
						free = append(free, i)
					}
				}
				if len(free) > 0 && rng.Intn(2) == 0 {
					exec(mop{kReg, free[rng.Intn(len(free))]})
				} else {
					exec(mop{kTick, 0})
				}
				continue
			}
			var idle, live []int
			for i := range cs {
				if legalReg(i) {
					idle = append(idle, i)
				}
				if legalStop(i) {
					live = append(live, i)
				}
			}
			wReg, wTick, wLapse, wStop := 35, 30, 15, 20
			if len(idle) == 0 {
				wReg = 0
			}
			if !legalLapse() {
				wLapse = 0
			}
			if len(live) == 0 {
				wStop = 0
				wReg *= 3
			}
			x := rng.Intn(wReg + wTick + wLapse + wStop)
			switch {
			case x < wReg:
				exec(mop{kReg, idle[rng.Intn(len(idle))]})
			case x < wReg+wTick:
				exec(mop{kTick, 0})
			case x < wReg+wTick+wLapse:
				exec(mop{kLapse, 0})
			default:
				exec(mop{kStop, live[rng.Intn(len(live))]})
			}
		}
	}
	// cleanup (part of the case)
	if out.invalid == "" && forcedTick() {
		exec(mop{kTick, 0})
	}
	if j := pendingIdx(); j >= 0 && out.invalid == "" {
		exec(mop{kStop, j})
	}
	for i, c := range cs {
		if (c.st == cBeliever || c.st == cZombie) && out.invalid == "" {
			exec(mop{kStop, i})
		}
	}
	return out
}

func (r *crun) unregisterFn() func() {
	r.mu.Lock()
	defer r.mu.Unlock()
	return r.unregister
}

// reference simulation of modes R and S on the INPUT schedule under the intended
// semantics: does a lapse happen while some registrant holds the key?
func lapseWhileRegisteredC(mode string, ops []mop) bool {
	holder, pending, lapsed, flag := -1, -1, -1, false
	for _, o := range ops {
		switch o.K {
		case kReg:
			if holder < 0 {
				holder = o.I
			} else {
				pending = o.I
			}
		case kLapse:
			if holder >= 0 {
				flag = true
				lapsed, holder = holder, -1
			}
		case kTick:
			if mode == "S" && lapsed >= 0 && holder < 0 {
				holder, lapsed = lapsed, -1 // registers again at once
			}
			if pending >= 0 && holder < 0 {
				holder, pending = pending, -1
			}
			if lapsed >= 0 {
				if pending < 0 {
					pending = lapsed // goes back to registering
				}
				lapsed = -1
			}
		case kStop:
			switch o.I {
			case pending:
				pending = -1
			case holder:
				holder = -1
			case lapsed:
				lapsed = -1
			}
		}
	}
	return flag
}

func clientCorpus(mode string) [][]mop {
	R := func(i int) mop { return mop{kReg, i} }
	S := func(i int) mop { return mop{kStop, i} }
	L, T := mop{kLapse, 0}, mop{kTick, 0}
	corpus := [][]mop{
		{R(0), T, S(0)},
		// etcd, R: 1 takes over at the tick after the lapse and 0 goes back to
		// registering; S: 0 registers again at once, 1 keeps waiting.
		// redis: 0 is never notified and 1 registers: two believers
		{R(0), R(1), T, L, T, T, S(1), T, S(0)},
		// a lapse with nobody waiting: the registrant comes back by itself
		{R(0), L, T, T, S(0)},
	}
	if mode == "S" {
		// contest (the only schedule with an MReg right after the MLapse of a
		// believer): 1 registers while 0 is lapsed, 0's re-registration is rejected,
		// 1 stops, 0 must register again at its next heartbeat retry
		corpus = append(corpus, []mop{R(0), L, R(1), T, S(1), T, S(0)})
	}
	if mode == "R" {
		// the old watcher's registration lapses, another watcher becomes active, then
		// the old one is notified: it must stop monitoring and go back to registering
		// (it gets the key again after the other one stopped)
		corpus = append(corpus, []mop{R(0), T, L, R(1), T, T, S(1), T, S(0)})
	}
	return corpus
}
