// Watcher mode of the C26 harness: the macro operations drive the client loop
// selfmon.withActiveLock (verif hook selfmon/export_verif.go) over the real
// stores; see the header of c26_test.go and w_mop in Locks/Ephemeral.v.
package c26

import (
	"context"
	"errors"
	"fmt"
	"math/rand"
	"sync"
	"time"

	"github.com/projecteru2/core/selfmon"
	"github.com/projecteru2/core/store"
	"github.com/projecteru2/core/types"
)

// spyStore is the real store with StartEphemeral instrumented: every attempt of
// the watcher's retry loop is delegated unchanged and its result recorded, so
// that the harness knows (instead of guessing from elapsed time) whether the
// first attempt failed, when a retry happened and whether it succeeded.
type spyStore struct {
	store.Store
	mu      sync.Mutex
	results []error
	lastAt  time.Time
	won     bool
}

func (s *spyStore) StartEphemeral(ctx context.Context, path string, heartbeat time.Duration) (<-chan struct{}, func(), error) {
	ch, stop, err := s.Store.StartEphemeral(ctx, path, heartbeat)
	s.mu.Lock()
	s.results = append(s.results, err)
	s.lastAt = time.Now()
	s.won = s.won || err == nil
	s.mu.Unlock()
	return ch, stop, err
}

func (s *spyStore) count() int {
	s.mu.Lock()
	defer s.mu.Unlock()
	return len(s.results)
}

func (s *spyStore) first() error {
	s.mu.Lock()
	defer s.mu.Unlock()
	return s.results[0]
}

func (s *spyStore) succeeded() bool {
	s.mu.Lock()
	defer s.mu.Unlock()
	return s.won
}

func (s *spyStore) last() time.Time {
	s.mu.Lock()
	defer s.mu.Unlock()
	return s.lastAt
}

// wrun is one start of a watcher: one call of withActiveLock.
type wrun struct {
	spy     *spyStore
	cancel  context.CancelFunc
	started chan struct{} // f was entered
	fret    chan struct{} // f returned
	done    chan struct{} // withActiveLock returned
	bad     string        // panic in the call
}

func (w *wrun) closedFlag() bool { return isClosed(w.started) && isClosed(w.fret) }

// harness view of a watcher; it mirrors the model: idle (EInit / EClosed /
// ERejected after a cancelled wait), pending (ERejected + the interpreter's
// pending slot), running (EActive).  It changes only at this watcher's own
// operations and at the observation points at which the model steps it.
const (
	wIdle = iota
	wPending
	wRunning
	wStuck // withActiveLock did not return within the watchdog: never started again
)

type watcher struct {
	st     int
	closed bool // flag of the last observation of this watcher
	doomed bool // etcd: the harness revoked the lease of this watcher's registration
	cur    *wrun
}

const (
	retryLimit = 3 * time.Second        // a retry cycle is 1 s + one StartEphemeral
	alignSlack = 300 * time.Millisecond // a key-freeing operation starts at most this long after the pending watcher's last attempt
)

func waitFor(limit time.Duration, cond func() bool) bool {
	deadline := time.Now().Add(limit)
	for {
		if cond() {
			return true
		}
		if time.Now().After(deadline) {
			return false
		}
		time.Sleep(5 * time.Millisecond)
	}
}

func startWatcher(b backend, id int) *wrun {
	cfg := types.Config{}
	cfg.HAKeepaliveInterval = b.hb()
	spy := &spyStore{Store: b.store()}
	ctx, cancel := context.WithCancel(context.Background())
	run := &wrun{spy: spy, cancel: cancel, started: make(chan struct{}), fret: make(chan struct{}), done: make(chan struct{})}
	w := selfmon.VerifNew(int64(id), cfg, nil, spy)
	go func() {
		defer close(run.done)
		defer func() {
			if p := recover(); p != nil {
				run.bad = "panic-in-withActiveLock"
			}
		}()
		w.VerifWithActiveLock(ctx, func(fctx context.Context) {
			close(run.started)
			<-fctx.Done()
			close(run.fret)
		})
	}()
	return run
}

func runWatcherSchedule(sp spec, b backend) outcome {
	defer b.close()
	out := outcome{b: b, n: sp.n}
	ws := make([]*watcher, sp.n)
	for i := range ws {
		ws[i] = &watcher{}
	}
	var runs []*wrun
	note := func(s string) {
		if s != "" {
			out.notes = append(out.notes, fmt.Sprintf("op%d:%s", len(out.ops), s))
		}
	}
	// the schedule starts with the key absent (etcd: the previous watcher schedule
	// on the shared cluster has fully stopped)
	if !waitFor(watchdog, func() bool { ex, _, _, _ := b.look(); return !ex }) {
		note("key-present-at-start")
	}
	defer func() {
		for _, r := range runs {
			r.cancel()
		}
		for _, r := range runs {
			waitFor(watchdog, func() bool { return isClosed(r.done) })
		}
	}()
	pendingIdx := func() int {
		for i, w := range ws {
			if w.st == wPending {
				return i
			}
		}
		return -1
	}
	flags := func() []bool {
		fl := make([]bool, sp.n)
		for i, w := range ws {
			fl[i] = w.closed
		}
		return fl
	}
	// align: an operation that frees the key while a watcher is pending must not
	// be followed by that watcher's retry before the next MTickAll (the model
	// retries at MTickAll only).  Retries come every second: start the operation
	// shortly after one (the attempt waited for fails, the key is still held:
	// unobservable).
	align := func() {
		j := pendingIdx()
		if j < 0 {
			return
		}
		if ex, _, _, _ := b.look(); !ex {
			return
		}
		spy := ws[j].cur.spy
		if time.Since(spy.last()) <= alignSlack {
			return
		}
		c := spy.count()
		if !waitFor(retryLimit, func() bool { return spy.count() > c }) {
			note("no-retry-while-aligning")
		}
	}
	// observe refreshes watcher i from its most recent start (only where the model steps it)
	observe := func(w *watcher) {
		if w.st == wRunning && isClosed(w.cur.done) {
			w.st, w.closed = wIdle, w.cur.closedFlag()
			note(w.cur.bad)
		}
	}
	exec := func(o mop) {
		ob := observation{Res: "ResNone"}
		switch o.K {
		case kReg:
			w := ws[o.I]
			run := startWatcher(b, o.I)
			runs = append(runs, run)
			w.cur, w.closed, w.doomed = run, false, false
			got := waitFor(watchdog, func() bool { return run.spy.count() > 0 || isClosed(run.done) })
			switch {
			case !got || run.spy.count() == 0:
				note("no-attempt-in-start")
				ob.Res, w.st = "ResOther", wPending
			case run.spy.first() == nil:
				if waitFor(watchdog, func() bool { return isClosed(run.started) }) {
					ob.Res, w.st = "ResOk", wRunning
					note(b.registered(o.I))
				} else {
					note("registered-but-f-not-started")
					ob.Res, w.st = "ResOther", wRunning
				}
			case errors.Is(run.spy.first(), types.ErrKeyExists):
				ob.Res, w.st = "ResExists", wPending
			default:
				note("other-error-in-start")
				ob.Res, w.st = "ResOther", wPending
			}
		case kLapse:
			align()
			if b.name() == "etcd" {
				if ex, owner, _, _ := b.look(); ex && owner >= 0 && owner < len(ws) {
					ws[owner].doomed = true
				}
			}
			note(b.lapse())
		case kTick:
			j, c0 := pendingIdx(), 0
			if j >= 0 {
				c0 = ws[j].cur.spy.count()
			}
			time.Sleep(tickAll(b.hb()))
			if j >= 0 {
				run := ws[j].cur
				if !waitFor(retryLimit, func() bool { return run.spy.count() > c0 }) {
					note("no-retry-in-tick")
				}
				if run.spy.succeeded() {
					if waitFor(watchdog, func() bool { return isClosed(run.started) }) {
						ws[j].st = wRunning
						note(b.registered(j))
					} else {
						note("registered-but-f-not-started")
					}
					time.Sleep(tickAll(b.hb())) // the new holder ticks too
				}
			}
			// settle (as in plain mode): wait for what the harness's own actions make
			// due — etcd: withActiveLock of a watcher whose lease the harness revoked
			// returns; redis: one refresh of an existing key by a running watcher
			waitFor(settleLimit, func() bool {
				if b.name() == "etcd" {
					for _, w := range ws {
						if w.st == wRunning && w.doomed && !isClosed(w.cur.done) {
							return false
						}
					}
					return true
				}
				anyRunning := false
				for _, w := range ws {
					anyRunning = anyRunning || w.st == wRunning
				}
				ex, _, ttl, _ := b.look()
				return !(anyRunning && ex && ttl != int64(refreshOf(b.hb())/time.Millisecond))
			})
			// a watcher whose f returned is about to return itself (unregister)
			for _, w := range ws {
				if w.st == wRunning && isClosed(w.cur.fret) {
					waitFor(watchdog, func() bool { return isClosed(w.cur.done) })
				}
				observe(w)
			}
		case kStop:
			w := ws[o.I]
			switch w.st {
			case wPending:
				w.cur.cancel()
				if waitFor(watchdog, func() bool { return isClosed(w.cur.done) }) {
					w.st, w.closed = wIdle, w.cur.closedFlag()
					note(w.cur.bad)
				} else {
					note("timeout-in-stop")
					w.st, w.closed = wStuck, false
				}
			case wRunning:
				align()
				w.cur.cancel()
				if waitFor(watchdog, func() bool { return isClosed(w.cur.done) }) {
					w.st, w.closed = wIdle, w.cur.closedFlag()
					note(w.cur.bad)
				} else {
					note("timeout-in-stop")
					w.st, w.closed = wStuck, false
				}
			}
		}
		var n string
		ob.Key, ob.Owner, ob.TTL, n = b.look()
		if (o.K == kReg || o.K == kStop) && ob.Key {
			// between these operations and the next MTickAll a background tick of any
			// registered registrant may or may not have refreshed the key: the TTL of an
			// existing key is compared only where it is settled (Ephemeral.mask_ttl)
			ob.TTL = 0
		}
		note(n)
		if o.K == kTick || o.K == kStop {
			ob.Closed = flags()
		}
		out.ops = append(out.ops, o)
		out.obs = append(out.obs, ob)
	}
	legalReg := func(i int) bool { return pendingIdx() < 0 && ws[i].st == wIdle }
	legalStop := func(i int) bool { return ws[i].st == wPending || ws[i].st == wRunning }
	if sp.fixed != nil {
		for _, o := range sp.fixed {
			if o.K == kReg && !legalReg(o.I) {
				continue // not a legal operation of the harness: dropped
			}
			// an MStop of a watcher that has already returned is kept: nothing to
			// cancel, and the model ignores the step
			exec(o)
		}
	} else {
		rng := rand.New(rand.NewSource(sp.seed))
		for k := 0; k < sp.length; k++ {
			var idle, live []int
			for i := range ws {
				if legalReg(i) {
					idle = append(idle, i)
				}
				if legalStop(i) {
					live = append(live, i)
				}
			}
			wReg, wTick, wLapse, wStop := 35, 30, 15, 20
			if len(idle) == 0 {
				wReg = 0
			}
			if len(live) == 0 {
				wStop = 0
				wReg *= 3 // nobody is running or waiting: mostly start somebody
			}
			x := rng.Intn(wReg + wTick + wLapse + wStop)
			switch {
			case x < wReg:
				exec(mop{kReg, idle[rng.Intn(len(idle))]})
			case x < wReg+wTick:
				exec(mop{kTick, 0})
			case x < wReg+wTick+wLapse:
				exec(mop{kLapse, 0})
			default:
				exec(mop{kStop, live[rng.Intn(len(live))]})
			}
		}
	}
	// cleanup (part of the case): the pending watcher first, then the running ones
	if j := pendingIdx(); j >= 0 {
		exec(mop{kStop, j})
	}
	for i, w := range ws {
		if w.st == wRunning {
			exec(mop{kStop, i})
		}
	}
	return out
}

// reference simulation of watcher mode on the INPUT schedule under the intended
// semantics (a pending watcher takes a free key at the next MTickAll): does a
// lapse happen while some watcher holds the key?
func lapseWhileRegisteredW(ops []mop) bool {
	holder, pending, flag := -1, -1, false
	for _, o := range ops {
		switch o.K {
		case kReg:
			if holder < 0 {
				holder = o.I
			} else {
				pending = o.I
			}
		case kLapse:
			if holder >= 0 {
				flag = true
				holder = -1
			}
		case kTick:
			if pending >= 0 && holder < 0 {
				holder, pending = pending, -1
			}
		case kStop:
			if pending == o.I {
				pending = -1
			} else if holder == o.I {
				holder = -1
			}
		}
	}
	return flag
}

func watcherCorpus() [][]mop {
	R := func(i int) mop { return mop{kReg, i} }
	S := func(i int) mop { return mop{kStop, i} }
	L, T := mop{kLapse, 0}, mop{kTick, 0}
	return [][]mop{
		{R(0), T, S(0)},
		// 1 waits; after the lapse etcd notifies 0 (f_0 returns) and 1 takes over;
		// on redis 0 is never notified: both f's run at the same time
		{R(0), R(1), T, L, T, S(0), T, S(1)},
		// a watcher cancelled while it is still waiting for the key
		{R(0), R(1), S(1), T, S(0)},
	}
}
