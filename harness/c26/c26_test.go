// C26 correspondence harness: N registrants (2 or 3) compete for ONE ephemeral
// key through the real StartEphemeral of the etcd-backed store
// (store/etcdv3/meta/ephemeral.go, embedded etcd cluster) and of the redis-backed
// store (store/redis/ephemeral.go, miniredis).  A schedule is a list of macro
// operations
//
//	MReg i    registrant i calls StartEphemeral(ctx_i, path, heartbeat)
//	MLapse    the registration lapses behind the registrants' back
//	          (etcd: a third party revokes the lease the key carries;
//	           redis: the server clock jumps past the TTL)
//	MTickAll  wait 2.5 tick periods: every live ticker fires at least once
//	MStop i   registrant i calls its stop function
//
// and after every operation the harness records what Locks/Ephemeral.v's
// interpreters e_mop / s_mop record: the result of the call, whether the key
// exists, who owns it (etcd: the registrant whose lease the key carries), the
// remaining TTL (redis) and - after MTickAll / MStop - which expiry channels are
// closed.  The case is (mkCase backend ttls ops obs).
//
// Watcher mode (backends BEtcdW / BRedisW, interpreter w_mop): the same macro
// operations drive the client loop selfmon.withActiveLock (through the verif hook
// selfmon/export_verif.go) instead of StartEphemeral itself:
//
//	MReg i    start watcher i: a goroutine calling withActiveLock(parentCtx_i, f_i);
//	          ResOk = its first StartEphemeral attempt succeeded and f_i runs,
//	          ResExists = it failed with ErrKeyExists: the watcher is "pending"
//	          (retrying every second); at most one watcher is pending at a time
//	MTickAll  2.5 tick periods, then the pending watcher's next retry, then (if it
//	          registered) 2.5 tick periods more
//	MStop i   cancel parentCtx_i and wait for withActiveLock to return
//
// closed[i] = f_i has run and has returned (most recent start of watcher i).
package c26

import (
	"context"
	"errors"
	"fmt"
	"math/rand"
	"sync"
	"sync/atomic"
	"testing"
	"time"

	"verifharness/vh"

	"github.com/alicebob/miniredis/v2"
	"github.com/projecteru2/core/selfmon"
	"github.com/projecteru2/core/store"
	"github.com/projecteru2/core/store/etcdv3"
	"github.com/projecteru2/core/store/etcdv3/embedded"
	"github.com/projecteru2/core/store/redis"
	"github.com/projecteru2/core/types"
	clientv3 "go.etcd.io/etcd/client/v3"
)

// Heartbeats.  etcd: 300 ms (lease ttl int64(hb/time.Second) = 0 -> the server's
// minimum; tick period 100 ms).  redis: 300 ms, 1 s or 1.2 s chosen per schedule
// (by schedule index): refreshEphemeral goes through go-redis Expire, which
// sends EXPIRE in whole seconds (a sub-second heartbeat is raised to 1 s, a
// fractional one truncated) while SetNX sends the exact PX value; the model's
// QTick mirrors this (Ephemeral.refresh_ms).
const (
	hbEtcd   = 300 * time.Millisecond
	watchdog = 5 * time.Second
)

var redisHeartbeats = []time.Duration{300 * time.Millisecond, time.Second, 1200 * time.Millisecond}

// refreshOf is go-redis formatSec applied to the heartbeat (Ephemeral.refresh_ms).
func refreshOf(hb time.Duration) time.Duration {
	if hb > 0 && hb < time.Second {
		return time.Second
	}
	return (hb / time.Second) * time.Second
}

// tickAll is 2.5 tick periods: every live ticker fires at least once.
func tickAll(hb time.Duration) time.Duration { return 5 * (hb / 3) / 2 }

// ---- operations and observations ----

type opKind int

const (
	kReg opKind = iota
	kLapse
	kTick
	kStop
)

type mop struct {
	K opKind
	I int
}

func (o mop) coq() string {
	switch o.K {
	case kReg:
		return fmt.Sprintf("(MReg %s)", vh.Nat(o.I))
	case kLapse:
		return "MLapse"
	case kTick:
		return "MTickAll"
	}
	return fmt.Sprintf("(MStop %s)", vh.Nat(o.I))
}

func (o mop) kind() string {
	return [...]string{"MReg", "MLapse", "MTickAll", "MStop"}[o.K]
}

func (o mop) String() string {
	if o.K == kReg || o.K == kStop {
		return fmt.Sprintf("%s %d", o.kind(), o.I)
	}
	return o.kind()
}

type observation struct {
	Res    string `json:"res"`
	Key    bool   `json:"key"`
	Owner  int    `json:"owner"` // -1 = None
	TTL    int64  `json:"ttl"`
	Closed []bool `json:"closed"` // nil = not observed at this step
}

func (o observation) coq() string {
	owner := "None"
	if o.Owner >= 0 {
		owner = vh.Some(vh.Nat(o.Owner))
	}
	cl := make([]string, len(o.Closed))
	for i, b := range o.Closed {
		cl[i] = vh.Bool(b)
	}
	return fmt.Sprintf("(mkObs %s %s %s %s %s)", o.Res, vh.Bool(o.Key), owner, vh.Z(o.TTL), vh.List(cl))
}

// ---- the two backends ----

type backend interface {
	name() string
	coq() string
	hb() time.Duration
	ttl() int64 // the model's per-registrant ttl
	start(ctx context.Context) (<-chan struct{}, func(), error)
	registered(i int) string          // right after a successful MReg i
	lapse() string                    // returns a note ("" = fine)
	look() (bool, int, int64, string) // key, owner, ttl, note
	store() store.Store               // watcher mode: what withActiveLock registers through
	close()
}

type etcdBackend struct {
	m     *etcdv3.Mercury
	cli   *clientv3.Client
	path  string
	owner map[int64]int // lease id -> registrant whose registration created it
	watch bool          // watcher mode (path = selfmon.ActiveKey)
	mode  string        // "R" (selfmon.run) / "S" (calcium.RegisterService), see clients_test.go
	beat  time.Duration // 0: hbEtcd
}

func (e *etcdBackend) name() string { return "etcd" }
func (e *etcdBackend) coq() string {
	if e.mode != "" {
		return "BEtcd" + e.mode
	}
	if e.watch {
		return "BEtcdW"
	}
	return "BEtcd"
}
func (e *etcdBackend) store() store.Store { return e.m }
func (e *etcdBackend) ttl() int64         { return 1 }
func (e *etcdBackend) hb() time.Duration {
	if e.beat > 0 {
		return e.beat
	}
	return hbEtcd
}
func (e *etcdBackend) close() {}
func (e *etcdBackend) start(ctx context.Context) (<-chan struct{}, func(), error) {
	return e.m.StartEphemeral(ctx, e.path, hbEtcd)
}

// get reads the key through the cluster client: (exists, lease, ok)
func (e *etcdBackend) get() (bool, int64, bool) {
	ctx, cancel := context.WithTimeout(context.Background(), watchdog)
	defer cancel()
	resp, err := e.cli.Get(ctx, e.path)
	if err != nil {
		return false, 0, false
	}
	if len(resp.Kvs) == 0 {
		return false, 0, true
	}
	return true, resp.Kvs[0].Lease, true
}

func (e *etcdBackend) registered(i int) string {
	ex, lease, ok := e.get()
	switch {
	case !ok:
		return "get-failed-after-reg"
	case !ex:
		return "key-absent-after-reg"
	}
	e.owner[lease] = i
	return ""
}

func (e *etcdBackend) lapse() string {
	ex, lease, ok := e.get()
	if !ok {
		return "get-failed-in-lapse"
	}
	if !ex {
		return ""
	}
	ctx, cancel := context.WithTimeout(context.Background(), watchdog)
	defer cancel()
	if _, err := e.cli.Revoke(ctx, clientv3.LeaseID(lease)); err != nil {
		return "revoke-failed-in-lapse"
	}
	return ""
}

func (e *etcdBackend) look() (bool, int, int64, string) {
	ex, lease, ok := e.get()
	if !ok {
		return false, -1, 0, "get-failed"
	}
	if !ex {
		return false, -1, 0, ""
	}
	if i, known := e.owner[lease]; known {
		return true, i, 0, ""
	}
	return true, -1, 0, "key-with-unknown-lease"
}

type redisBackend struct {
	srv   *miniredis.Miniredis
	r     *redis.Rediaron
	path  string
	beat  time.Duration
	watch bool
	mode  string
}

func (q *redisBackend) name() string { return "redis" }
func (q *redisBackend) coq() string {
	if q.mode != "" {
		return "BRedis" + q.mode
	}
	if q.watch {
		return "BRedisW"
	}
	return "BRedis"
}
func (q *redisBackend) store() store.Store    { return q.r }
func (q *redisBackend) ttl() int64            { return int64(q.beat / time.Millisecond) }
func (q *redisBackend) hb() time.Duration     { return q.beat }
func (q *redisBackend) registered(int) string { return "" }
func (q *redisBackend) close()                { q.srv.Close() }
func (q *redisBackend) start(ctx context.Context) (<-chan struct{}, func(), error) {
	return q.r.StartEphemeral(ctx, q.path, q.beat)
}
func (q *redisBackend) lapse() string {
	// the model advances its clock by max(ttl, refresh ttl) + 1 ms (Ephemeral.max_ttl)
	d := q.beat
	if r := refreshOf(q.beat); r > d {
		d = r
	}
	q.srv.FastForward(d + time.Millisecond)
	return ""
}
func (q *redisBackend) look() (bool, int, int64, string) {
	if !q.srv.Exists(q.path) {
		return false, -1, -2, ""
	}
	d := q.srv.TTL(q.path)
	if d == 0 {
		return true, -1, -1, ""
	}
	return true, -1, int64(d / time.Millisecond), ""
}

// ---- guarded calls: a hang or a panic is an outcome, not a harness failure ----

type startRes struct {
	ch   <-chan struct{}
	stop func()
	err  error
	bad  string
}

func guardedStart(b backend, ctx context.Context) startRes {
	out := make(chan startRes, 1)
	go func() {
		defer func() {
			if p := recover(); p != nil {
				out <- startRes{bad: "panic-in-start"}
			}
		}()
		ch, stop, err := b.start(ctx)
		out <- startRes{ch: ch, stop: stop, err: err}
	}()
	select {
	case v := <-out:
		return v
	case <-time.After(watchdog):
		return startRes{bad: "timeout-in-start"}
	}
}

func guardedStop(stop func()) string {
	out := make(chan string, 1)
	go func() {
		defer func() {
			if p := recover(); p != nil {
				out <- "panic-in-stop"
			}
		}()
		stop()
		out <- ""
	}()
	select {
	case v := <-out:
		return v
	case <-time.After(watchdog):
		return "timeout-in-stop"
	}
}

func isClosed(ch <-chan struct{}) bool {
	if ch == nil {
		return false
	}
	select {
	case <-ch:
		return true
	default:
		return false
	}
}

// ---- one schedule ----

// registrant states of the harness view; they mirror the model's pc:
// init (EInit/SInit), active (EActive/SActive), rejected (ERejected/SRejected),
// closed (EClosed/SClosed).
const (
	stInit = iota
	stActive
	stRejected
	stClosed
	stStuck // stop returned / timed out but the channel is not closed: never in the model
)

type registrant struct {
	st     int
	ch     <-chan struct{} // expiry channel of the most recent successful registration
	stop   func()
	cancel context.CancelFunc
	doomed bool // etcd: the harness revoked the lease of this registration
}

type spec struct {
	b     string
	watch bool   // watcher mode: selfmon.withActiveLock instead of StartEphemeral
	mode  string // "R": selfmon.run, "S": calcium.RegisterService (clients_test.go)
	// mode S: the schedule may register somebody right after the lapse of a
	// believer (etcd heartbeat 1.5 s so that the newcomer wins against the notification)
	contest bool
	n       int
	fixed   []mop // corpus: the operations; nil = random
	seed    int64 // random: private generator seed, drawn from r.Rng
	length  int
}

type outcome struct {
	b     backend
	n     int
	ops   []mop
	obs   []observation
	notes []string
	// non-empty: the timing of the run could not be validated (an expected
	// registration attempt did not show up within its limit): never emitted
	invalid string
}

func runSchedule(sp spec, b backend) outcome {
	defer b.close()
	out := outcome{b: b, n: sp.n}
	regs := make([]*registrant, sp.n)
	for i := range regs {
		regs[i] = &registrant{}
	}
	note := func(s string) {
		if s != "" {
			out.notes = append(out.notes, fmt.Sprintf("op%d:%s", len(out.ops), s))
		}
	}
	var cancels []context.CancelFunc
	defer func() {
		for _, c := range cancels {
			c()
		}
	}()
	flags := func() []bool {
		fl := make([]bool, sp.n)
		for i, g := range regs {
			fl[i] = g.st == stClosed
		}
		return fl
	}
	exec := func(o mop) {
		ob := observation{Res: "ResNone"}
		switch o.K {
		case kReg:
			g := regs[o.I]
			ctx, cancel := context.WithCancel(context.Background())
			cancels = append(cancels, cancel)
			res := guardedStart(b, ctx)
			switch {
			case res.bad != "":
				note(res.bad)
				ob.Res, g.st = "ResOther", stRejected
			case res.err == nil:
				ob.Res, g.st = "ResOk", stActive
				g.ch, g.stop, g.doomed = res.ch, res.stop, false
				note(b.registered(o.I))
			case errors.Is(res.err, types.ErrKeyExists):
				ob.Res, g.st = "ResExists", stRejected
			default:
				note("other-error-in-start")
				ob.Res, g.st = "ResOther", stRejected
			}
		case kLapse:
			// etcd: the registrant whose lease the key carries is about to lose it
			// (known from the harness's own action, not from the outcome)
			if b.name() == "etcd" {
				if ex, owner, _, _ := b.look(); ex && owner >= 0 && owner < len(regs) {
					regs[owner].doomed = true
				}
			}
			note(b.lapse())
		case kTick:
			time.Sleep(tickAll(b.hb()))
			// under machine load a ticker may need longer than 2.5 periods: wait (at
			// most settleLimit more) for what the harness's own actions make due —
			// etcd: the channel of a registrant whose lease the harness revoked;
			// redis: one refresh of an existing key by an active registrant
			deadline := time.Now().Add(settleLimit)
			for time.Now().Before(deadline) {
				pending := false
				if b.name() == "etcd" {
					for _, g := range regs {
						if g.st == stActive && g.doomed && !isClosed(g.ch) {
							pending = true
						}
					}
				} else {
					anyActive := false
					for _, g := range regs {
						anyActive = anyActive || g.st == stActive
					}
					if ex, _, ttl, _ := b.look(); anyActive && ex && ttl != int64(refreshOf(b.hb())/time.Millisecond) {
						pending = true
					}
				}
				if !pending {
					break
				}
				time.Sleep(20 * time.Millisecond)
			}
			for _, g := range regs {
				if g.st == stActive && isClosed(g.ch) {
					g.st = stClosed
				}
			}
		case kStop:
			// the model steps registrant i only: only its channel is polled here,
			// the other flags are the ones of the last observation
			g := regs[o.I]
			if g.stop != nil {
				note(guardedStop(g.stop)) // idempotent when already stopped / closed
			}
			if g.st == stActive {
				if isClosed(g.ch) {
					g.st = stClosed
				} else {
					note("channel-open-after-stop")
					g.st = stStuck
				}
			}
		}
		var n string
		ob.Key, ob.Owner, ob.TTL, n = b.look()
		if (o.K == kReg || o.K == kStop) && ob.Key {
			// between these operations and the next MTickAll a background tick of any
			// registered registrant may or may not have refreshed the key: the TTL of an
			// existing key is compared only where it is settled (Ephemeral.mask_ttl)
			ob.TTL = 0
		}
		note(n)
		if o.K == kTick || o.K == kStop {
			ob.Closed = flags()
		}
		out.ops = append(out.ops, o)
		out.obs = append(out.obs, ob)
	}
	active := func() []int {
		var l []int
		for i, g := range regs {
			if g.st == stActive {
				l = append(l, i)
			}
		}
		return l
	}
	if sp.fixed != nil {
		for _, o := range sp.fixed {
			if o.K == kReg && regs[o.I].st == stActive {
				continue // not a legal operation of the harness: dropped
			}
			exec(o)
		}
	} else {
		rng := rand.New(rand.NewSource(sp.seed))
		for k := 0; k < sp.length; k++ {
			act := active()
			var idle []int
			for i, g := range regs {
				if g.st != stActive {
					idle = append(idle, i)
				}
			}
			// weights: MReg 35, MTickAll 30, MLapse 15, MStop 20 among the legal kinds
			wReg, wTick, wLapse, wStop := 35, 30, 15, 20
			if len(idle) == 0 {
				wReg = 0
			}
			if len(act) == 0 {
				wStop = 0
			}
			x := rng.Intn(wReg + wTick + wLapse + wStop)
			switch {
			case x < wReg:
				exec(mop{kReg, idle[rng.Intn(len(idle))]})
			case x < wReg+wTick:
				exec(mop{kTick, 0})
			case x < wReg+wTick+wLapse:
				exec(mop{kLapse, 0})
			default:
				exec(mop{kStop, act[rng.Intn(len(act))]})
			}
		}
	}
	// cleanup (part of the case): stop every registrant still active in the harness view
	for _, i := range active() {
		exec(mop{kStop, i})
	}
	return out
}

// reference simulation on the INPUT schedule under the intended semantics:
// does a lapse happen while some registrant holds the key?
func lapseWhileRegistered(ops []mop) bool {
	holder, flag := -1, false
	for _, o := range ops {
		switch o.K {
		case kReg:
			if holder < 0 {
				holder = o.I
			}
		case kLapse:
			if holder >= 0 {
				flag = true
				holder = -1
			}
		case kStop:
			if holder == o.I {
				holder = -1
			}
		}
	}
	return flag
}

// lane: an embedded cluster with the schedules that use it
type lane struct {
	t     *testing.T
	merc  *etcdv3.Mercury
	cli   *clientv3.Client
	joins sync.WaitGroup // lazy joins of cancelled client loops (clients_test.go)
}

// ---- stall probe (etcd schedules) ----

const stallLimit = 400 * time.Millisecond
const settleLimit = 4 * time.Second

type stallProbe struct {
	done chan struct{}
	res  chan time.Duration
}

func startProbe(cli *clientv3.Client) *stallProbe {
	p := &stallProbe{done: make(chan struct{}), res: make(chan time.Duration, 1)}
	go func() {
		var worst time.Duration
		prev := time.Now()
		for {
			select {
			case <-p.done:
				p.res <- worst
				return
			case <-time.After(20 * time.Millisecond):
			}
			ctx, cancel := context.WithTimeout(context.Background(), 3*time.Second)
			_, _ = cli.Get(ctx, "/stallprobe")
			cancel()
			now := time.Now()
			if g := now.Sub(prev) - 20*time.Millisecond; g > worst {
				worst = g
			}
			prev = now
		}
	}()
	return p
}

func (p *stallProbe) stop() time.Duration {
	close(p.done)
	return <-p.res
}

func corpus() [][]mop {
	R := func(i int) mop { return mop{kReg, i} }
	S := func(i int) mop { return mop{kStop, i} }
	L, T := mop{kLapse, 0}, mop{kTick, 0}
	return [][]mop{
		{R(0), T, S(0)},
		{R(0), R(1), T, S(0), R(1), T, S(1)},
		// the redis witness: after the lapse 1 takes over, 0 is never notified and
		// its Stop deletes the key of 1
		{R(0), L, R(1), T, S(0), T, S(1)},
		// lapse with nobody taking over: etcd closes 0 at the tick, redis never does
		{R(0), L, T, R(1), T, S(1)},
	}
}

func TestC26(t *testing.T) {
	r := vh.New(t, "C26", "eph")
	r.Coq("From Verif Require Import Locks.Ephemeral.", "Ephemeral.case", "Ephemeral.agree", "Ephemeral.ok")

	cfg := types.Config{}
	cfg.Etcd.Prefix = "/verif"
	cfg.Etcd.LockPrefix = "__lock__"
	cfg.MaxConcurrency = 1000
	merc, err := etcdv3.New(cfg, t)
	if err != nil {
		t.Fatalf("embedded etcd: %v", err)
	}
	cli := embedded.NewCluster(t, cfg.Etcd.Prefix).RandClient()

	// the schedules, in emission order: corpus (etcd, redis), then random ones
	var specs []spec
	for _, b := range []string{"etcd", "redis"} {
		for _, ops := range corpus() {
			specs = append(specs, spec{b: b, n: 2, fixed: ops})
		}
	}
	for _, b := range []string{"etcd", "redis"} {
		for _, ops := range watcherCorpus() {
			specs = append(specs, spec{b: b, watch: true, n: 2, fixed: ops})
		}
	}
	nRandom := r.N(16, 300)
	for k := 0; k < nRandom; k++ {
		for _, b := range []string{"etcd", "redis"} {
			specs = append(specs, spec{b: b, n: 2 + r.Rng.Intn(2), seed: r.Rng.Int63(), length: 8 + r.Rng.Intn(8)})
		}
	}
	nWatch := r.N(4, 40)
	for k := 0; k < nWatch; k++ {
		for _, b := range []string{"etcd", "redis"} {
			specs = append(specs, spec{b: b, watch: true, n: 2 + r.Rng.Intn(2), seed: r.Rng.Int63(), length: 6 + r.Rng.Intn(5)})
		}
	}

	// client modes R (selfmon.run) and S (calcium.RegisterService): corpus, then random
	nClient := r.N(2, 20)
	for _, mode := range []string{"R", "S"} {
		for _, b := range []string{"etcd", "redis"} {
			for k, ops := range clientCorpus(mode) {
				specs = append(specs, spec{b: b, mode: mode, n: 2, fixed: ops, contest: mode == "S" && k == 3})
			}
		}
		for k := 0; k < nClient; k++ {
			for _, b := range []string{"etcd", "redis"} {
				specs = append(specs, spec{b: b, mode: mode, n: 2 + r.Rng.Intn(2), seed: r.Rng.Int63(), length: 6 + r.Rng.Intn(4), contest: mode == "S" && k%3 == 1})
			}
		}
	}

	// the etcd schedules on a fixed key run one at a time: selfmon.ActiveKey is used
	// by the watcher mode and by mode R (one chain), the service key by mode S
	// (another chain).  (A second embedded cluster is not possible: the etcd
	// integration framework allows one test context per process.)
	main := &lane{t: t, merc: merc, cli: cli}
	mk := func(ln *lane, idx int, sp spec) (backend, error) {
		if sp.b == "etcd" {
			path := fmt.Sprintf("/eph/%d", idx)
			switch {
			case sp.mode == "S":
				path = serviceKey
			case sp.watch || sp.mode == "R":
				path = selfmon.ActiveKey // fixed: these schedules run one at a time
			}
			eb := &etcdBackend{m: ln.merc, cli: ln.cli, path: path, owner: map[int64]int{}, watch: sp.watch, mode: sp.mode}
			if sp.contest {
				eb.beat = 1500 * time.Millisecond
			}
			return eb, nil
		}
		srv, err := miniredis.Run()
		if err != nil {
			return nil, err
		}
		rc := types.Config{MaxConcurrency: 1000}
		rc.Redis.Addr = srv.Addr()
		rd, err := redis.New(rc, nil)
		if err != nil {
			srv.Close()
			return nil, err
		}
		if sp.mode != "" {
			path := selfmon.ActiveKey
			if sp.mode == "S" {
				path = serviceKey
			}
			return &redisBackend{srv: srv, r: rd, path: path, beat: time.Second, mode: sp.mode}, nil
		}
		if sp.watch {
			// 1 s only: with a heartbeat whose refresh ttl differs from it, the ttl
			// read after a slow watcher operation (a cancelled wait takes up to 1 s)
			// depends on whether a background tick has fired
			return &redisBackend{srv: srv, r: rd, path: selfmon.ActiveKey, beat: time.Second, watch: true}, nil
		}
		return &redisBackend{srv: srv, r: rd, path: fmt.Sprintf("/eph/%d", idx), beat: redisHeartbeats[idx%len(redisHeartbeats)]}, nil
	}

	var repeated, emittedStalled, repeatedInvalid, droppedInvalid int64
	dropRun := make([]bool, len(specs))
	outs := make([]outcome, len(specs))
	errs := make([]error, len(specs))
	sem := make(chan struct{}, 8)
	var wg sync.WaitGroup
	runOne := func(ln *lane, idx int, sp spec) {
		// etcd schedules depend on real time (1 s leases kept alive by 100 ms
		// tickers): a stall of the machine / the embedded server lets a lease
		// expire by itself, which the schedule did not ask for.  A probe that is
		// independent of the code under test measures the largest stall; a
		// stalled run is repeated (at most twice) on a fresh key, then emitted anyway.
		for attempt := 0; ; attempt++ {
			b, err := mk(ln, idx*8+attempt, sp)
			if err != nil {
				errs[idx] = err
				return
			}
			var probe *stallProbe
			if sp.b == "etcd" {
				probe = startProbe(ln.cli)
			}
			switch {
			case sp.mode != "":
				outs[idx] = runClientSchedule(ln.t, &ln.joins, sp, b)
			case sp.watch:
				outs[idx] = runWatcherSchedule(sp, b)
			default:
				outs[idx] = runSchedule(sp, b)
			}
			var stall time.Duration
			if probe != nil {
				stall = probe.stop()
			}
			if outs[idx].invalid != "" && stall < stallLimit {
				// an expected registration attempt did not show up in time: the run
				// is not validated; repeated, then dropped and counted, never emitted
				if attempt >= 2 {
					atomic.AddInt64(&droppedInvalid, 1)
					dropRun[idx] = true
					return
				}
				atomic.AddInt64(&repeatedInvalid, 1)
				continue
			}
			if stall < stallLimit {
				return
			}
			if attempt >= 3 {
				atomic.AddInt64(&emittedStalled, 1)
				dropRun[idx] = true
				return
			}
			atomic.AddInt64(&repeated, 1)
		}
	}
	// the etcd watcher schedules share one key: one goroutine runs them one after
	// the other, in parallel with everything else
	serial := func(sp spec) string { // the lane of a schedule that must not overlap with its like
		switch {
		case sp.b != "etcd":
			return ""
		case sp.watch || sp.mode == "R":
			return "A" // selfmon.ActiveKey
		}
		return sp.mode
	}
	chain := func(ln *lane, which string) {
		for idx, sp := range specs {
			if serial(sp) == which {
				runOne(ln, idx, sp)
			}
		}
	}
	for _, which := range []string{"A", "S"} {
		wg.Add(1)
		go func(which string) {
			defer wg.Done()
			chain(main, which)
		}(which)
	}
	wg.Add(1)
	go func() {
		defer wg.Done()
		for idx, sp := range specs {
			if serial(sp) != "" {
				continue
			}
			wg.Add(1)
			sem <- struct{}{}
			go func(idx int, sp spec) {
				defer wg.Done()
				defer func() { <-sem }()
				runOne(main, idx, sp)
			}(idx, sp)
		}
	}()
	wg.Wait()
	main.joins.Wait()

	for k := int64(0); k < repeated; k++ {
		r.Count("etcd_schedules_repeated_after_stall")
	}
	for k := int64(0); k < emittedStalled; k++ {
		r.Count("etcd_schedules_dropped_stalled")
	}
	for k := int64(0); k < repeatedInvalid; k++ {
		r.Count("schedules_repeated_unvalidated")
	}
	for k := int64(0); k < droppedInvalid; k++ {
		r.Count("schedules_dropped_unvalidated")
	}
	for k := int64(0); k < atomic.LoadInt64(&notReturned); k++ {
		r.Count("client_loops_not_returned_after_cancel")
	}
	if emittedStalled*2 > int64(len(specs)) {
		t.Fatalf("more than half of the schedules were dropped because the embedded cluster stalled")
	}
	for idx, o := range outs {
		if dropRun[idx] {
			continue
		}
		if errs[idx] != nil {
			t.Fatalf("schedule %d: backend setup failed: %v", idx, errs[idx])
		}
		ttls := make([]int64, o.n)
		for i := range ttls {
			ttls[i] = o.b.ttl()
		}
		ops := make([]string, len(o.ops))
		opNames := make([]string, len(o.ops))
		obs := make([]string, len(o.obs))
		exists := false
		for i := range o.ops {
			ops[i], opNames[i], obs[i] = o.ops[i].coq(), o.ops[i].String(), o.obs[i].coq()
			r.Count("op=" + o.ops[i].kind())
			if o.ops[i].K == kReg {
				r.Count("reg=" + o.obs[i].Res)
				exists = exists || o.obs[i].Res == "ResExists"
			}
		}
		lwr, client := lapseWhileRegistered(o.ops), "direct"
		switch {
		case specs[idx].mode == "R":
			lwr, client = lapseWhileRegisteredC("R", o.ops), "selfmon.run"
		case specs[idx].mode == "S":
			lwr, client = lapseWhileRegisteredC("S", o.ops), "RegisterService"
		case specs[idx].watch:
			lwr, client = lapseWhileRegisteredW(o.ops), "selfmon"
		}
		r.Count("backend=" + o.b.name())
		r.Count("client=" + client)
		r.Count(fmt.Sprintf("n=%d", o.n))
		r.Count(fmt.Sprintf("lapse_while_registered=%v", lwr))
		if len(o.notes) > 0 {
			r.Count("schedules_with_notes")
		}
		term := fmt.Sprintf("(mkCase %s %s %s %s)", o.b.coq(), vh.ZList(ttls), vh.List(ops), vh.List(obs))
		desc := map[string]any{"backend": o.b.name(), "client": client, "n": o.n, "heartbeat_ms": int64(o.b.hb() / time.Millisecond),
			"corpus": specs[idx].fixed != nil, "ops": opNames, "obs": o.obs, "notes": o.notes}
		tags := map[string]any{"backend": o.b.name(), "client": client, "lapse_while_registered": lwr}
		r.Add(term, desc, tags, lwr || exists)
	}
	r.Finish("per backend (real StartEphemeral on embedded etcd with heartbeat 300 ms / miniredis with heartbeats 300 ms / 1 s / 1.2 s by schedule index; an etcd schedule during which an independent probe saw a stall >= 400 ms is repeated up to three times, then dropped): a corpus of 4 schedules (register-tick-stop; a rejected second registrant that registers after the first stopped; the redis witness lapse-takeover-stop; lapse with nobody taking over), then adaptive random schedules of 8-15 macro operations over 2 or 3 registrants (MReg 35%, MTickAll 30%, MLapse 15%, MStop 20% among the operations legal in the harness view), closed by a Stop of every still-active registrant; non-trivial = a lapse while somebody is registered, or a registration rejected with ErrKeyExists. Watcher mode (client=selfmon): the same operations drive selfmon.withActiveLock through the verif hook (MReg = start a watcher, pending when its first attempt is rejected, at most one pending; MTickAll also waits for the pending watcher's next retry; MStop = cancel the watcher's context), etcd heartbeat 300 ms on the fixed key one schedule at a time, redis heartbeat 1 s: a corpus of 3 schedules per backend (start-tick-stop; a waiting watcher that takes over after a lapse; a watcher cancelled while waiting), then adaptive random schedules of 6-10 operations. Client modes R (client=selfmon.run: the restart loop selfmon.run, pause ConnectionTimeout 2.5 s) and S (client=RegisterService: one Calcium per registrant, same bind address hence one service key): every registration attempt and every expiry channel is observed through a delegating store proxy; the closed flag means 'does not believe it holds' (R: no monitor of the watcher is running, observed through a per-watcher NodeStatusStream wrapper; S: no live registration of the Calcium); generator rules: at most one pending registrant, on etcd at most one lapsed registrant not yet notified, a free key with a pending registrant forces MTickAll, S on etcd: MLapse of a believer forces MTickAll, key-freeing operations aligned to the pending registrant's retries; per mode and backend a corpus of 3 schedules (start-tick-stop; a waiting registrant and a lapse; a lapse with nobody waiting; R also: another watcher registers after a lapse, then the old one is notified; S also the contest: on a 1.5 s etcd heartbeat somebody registers right after the lapse of a believer - validated by its result, otherwise repeated then dropped - the lapsed one's re-registration is rejected and it must register again at a heartbeat retry once the key is free; a missing retry of such a registrant within max(5 heartbeats, 3 s) without a stall is emitted as observed; a third of the random S schedules allow the contest), then adaptive random schedules of 6-9 operations; a run in which an expected registration attempt does not show up within its limit is repeated, then dropped and counted, never emitted")
}
