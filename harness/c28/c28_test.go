// Package c28 runs the real selfmon.NodeStatusWatcher (through the verif hook
// VerifNew/VerifRun) against a real Calcium on embedded etcd (harness/cw:
// real cpumem plugin, real WAL, verif:// fake engines so that nodes are NOT
// test nodes) and emits, after every step of a history, the status of every
// workload as Coq terms for Selfmon/Selfmon.v.
//
// Steps: add node | heartbeat n | lapse n (delete or lease revoke) | create on n |
// agent report | start watcher | start watcher with its NodeStatusStream call
// held back | release | stop watcher | expire the active lock.
// After each step the harness waits until the watchers are at rest (no call
// through the cluster wrapper in flight and none for 200 ms; a watcher that
// should take over the lock has opened its stream; a free-running active
// watcher has proved its watch works on a probe node), then reads the statuses.
package c28

import (
	"context"
	"fmt"
	"strings"
	"sync"
	"testing"
	"time"

	"verifharness/cw"
	"verifharness/vh"

	clientv3 "go.etcd.io/etcd/client/v3"

	"github.com/projecteru2/core/cluster"
	"github.com/projecteru2/core/selfmon"
	"github.com/projecteru2/core/types"
)

const probeNode = "zprobe"

type action struct {
	Kind   string `json:"kind"` // addnode heartbeat lapse create report start startheld release stop expire
	Node   int    `json:"node,omitempty"`
	W      int    `json:"w,omitempty"`
	R      bool   `json:"running,omitempty"`
	H      bool   `json:"healthy,omitempty"`
	K      int    `json:"k,omitempty"`
	Revoke bool   `json:"revoke,omitempty"` // lapse by revoking the status lease instead of deleting the key
	TTL    int64  `json:"ttl,omitempty"`    // report with a lease
	Hb     bool   `json:"hb,omitempty"`     // lapse: the heartbeat is back before the handler has made its first call
	Fail   bool   `json:"fail,omitempty"`   // lapse: the SetNode call of the handler it triggers fails (injected)
}

type slotObs struct {
	Act  action   `json:"act"`
	Seen []string `json:"seen"` // per workload: none | r,h
	Note string   `json:"note,omitempty"`
}

type result struct {
	Name  string    `json:"name"`
	Slots []slotObs `json:"slots"`
	Err   string    `json:"err,omitempty"`
}

// ---- cluster wrapper: observes (and, for the stream, can hold back) what selfmon calls ----

type clusterW struct {
	cluster.Cluster
	mu        sync.Mutex
	inflight  int
	last      time.Time
	streams   int
	lists     int
	reads     int
	setNodes  map[string]int // completed SetNode calls per node
	gateNode  string         // GetNodeStatus/SetNode for this node wait at the gate
	gate      chan struct{}  // closed to open the gate
	gateHit   chan struct{}  // closed when a call arrived at the gate
	failNode  string         // the next SetNode for this node fails (once)
	failed    int            // injected failures delivered
	hold      chan struct{}  // non-nil: NodeStatusStream waits for it
	holdReach chan struct{}  // closed when a held stream call arrived
}

func (c *clusterW) enter() { c.mu.Lock(); c.inflight++; c.last = time.Now(); c.mu.Unlock() }
func (c *clusterW) leave() { c.mu.Lock(); c.inflight--; c.last = time.Now(); c.mu.Unlock() }

// atGate holds a call concerning the gated node until the harness opens the gate.
func (c *clusterW) atGate(ctx context.Context, node string) {
	c.mu.Lock()
	g, hit := c.gate, c.gateHit
	gated := c.gateNode != "" && c.gateNode == node
	c.mu.Unlock()
	if !gated {
		return
	}
	select {
	case <-hit:
	default:
		safeClose(hit)
	}
	select {
	case <-g:
	case <-ctx.Done():
	}
}

func (c *clusterW) ListPodNodes(ctx context.Context, o *types.ListNodesOptions) (<-chan *types.Node, error) {
	c.enter()
	defer c.leave()
	c.mu.Lock()
	c.lists++
	c.mu.Unlock()
	return c.Cluster.ListPodNodes(ctx, o)
}
func (c *clusterW) GetNodeStatus(ctx context.Context, n string) (*types.NodeStatus, error) {
	c.enter()
	defer c.leave()
	c.atGate(ctx, n)
	c.mu.Lock()
	c.reads++
	c.mu.Unlock()
	return c.Cluster.GetNodeStatus(ctx, n)
}
func (c *clusterW) SetNode(ctx context.Context, o *types.SetNodeOptions) (*types.Node, error) {
	c.enter()
	defer c.leave()
	c.atGate(ctx, o.Nodename)
	c.mu.Lock()
	if c.failNode != "" && c.failNode == o.Nodename {
		c.failNode = ""
		c.failed++
		c.mu.Unlock()
		return nil, types.ErrNodeNotExists // injected: what a failing store step looks like to selfmon
	}
	c.mu.Unlock()
	n, err := c.Cluster.SetNode(ctx, o)
	c.mu.Lock()
	if err == nil {
		c.setNodes[o.Nodename]++
	}
	c.mu.Unlock()
	return n, err
}
func (c *clusterW) NodeStatusStream(ctx context.Context) chan *types.NodeStatus {
	c.mu.Lock()
	hold, reach := c.hold, c.holdReach
	c.mu.Unlock()
	if hold != nil {
		// a legal schedule: the goroutine that is to open the watch is slow
		select {
		case <-reach:
		default:
			close(reach)
		}
		select {
		case <-hold:
		case <-ctx.Done():
		}
	}
	c.enter()
	defer c.leave()
	ch := c.Cluster.NodeStatusStream(ctx)
	c.mu.Lock()
	c.streams++
	c.mu.Unlock()
	return ch
}

func (c *clusterW) snapshot() (inflight int, last time.Time, streams, lists, reads int) {
	c.mu.Lock()
	defer c.mu.Unlock()
	return c.inflight, c.last, c.streams, c.lists, c.reads
}
func (c *clusterW) setNodeCount(n string) int {
	c.mu.Lock()
	defer c.mu.Unlock()
	return c.setNodes[n]
}

func safeClose(c chan struct{}) {
	defer func() { _ = recover() }()
	close(c)
}

type watcher struct {
	cw      *clusterW
	cancel  context.CancelFunc
	done    chan struct{}
	held    bool
	stopped bool
}

// jitter measures how late this process's timers fire: an outcome-independent
// sign that the machine is too loaded for the waits below to mean anything.
type jitter struct {
	mu   sync.Mutex
	max  time.Duration
	stop chan struct{}
}

func startJitter() *jitter {
	j := &jitter{stop: make(chan struct{})}
	go func() {
		for {
			t0 := time.Now()
			select {
			case <-j.stop:
				return
			case <-time.After(10 * time.Millisecond):
			}
			over := time.Since(t0) - 10*time.Millisecond
			j.mu.Lock()
			if over > j.max {
				j.max = over
			}
			j.mu.Unlock()
		}
	}()
	return j
}
func (j *jitter) end() time.Duration {
	close(j.stop)
	j.mu.Lock()
	defer j.mu.Unlock()
	return j.max
}

const jitterLimit = 400 * time.Millisecond

// ---- one history ----

type world struct {
	w        *cw.World
	t        *testing.T
	watchers []*watcher
	ids      []string // workload ids in creation order
	active   *watcher // the watcher believed to hold the lock
	nnodes   int
}

func nodeName(i int) string { return fmt.Sprintf("n%d", i) }

func (x *world) quiet(d time.Duration, max time.Duration) {
	deadline := time.Now().Add(max)
	for time.Now().Before(deadline) {
		ok := true
		for _, wt := range x.watchers {
			inflight, last, _, _, _ := wt.cw.snapshot()
			if inflight > 0 || time.Since(last) < d {
				ok = false
			}
		}
		if ok {
			return
		}
		time.Sleep(20 * time.Millisecond)
	}
}

func (x *world) statuses() []string {
	out := make([]string, len(x.ids))
	for i, id := range x.ids {
		st, err := x.w.C.GetWorkloadsStatus(x.w.Ctx, []string{id})
		switch {
		case err != nil:
			out[i] = "err"
		case len(st) != 1 || st[0] == nil:
			out[i] = "none"
		default:
			out[i] = fmt.Sprintf("%v,%v", st[0].Running, st[0].Healthy)
		}
	}
	return out
}

func (x *world) stable() []string {
	prev := x.statuses()
	deadline := time.Now().Add(5 * time.Second)
	for time.Now().Before(deadline) {
		time.Sleep(70 * time.Millisecond)
		x.quiet(100*time.Millisecond, 2*time.Second)
		cur := x.statuses()
		if strings.Join(cur, ";") == strings.Join(prev, ";") {
			return cur
		}
		prev = cur
	}
	return prev
}

// initDone waits until the init pass of wt's current session has examined all
// nodes (reads grew by the number of nodes) and nothing is in flight.
func (x *world) initDone(wt *watcher, readsBefore int) {
	deadline := time.Now().Add(4 * time.Second)
	for time.Now().Before(deadline) {
		inflight, _, _, _, reads := wt.cw.snapshot()
		if reads >= readsBefore+x.nnodes+1 && inflight == 0 {
			return
		}
		time.Sleep(15 * time.Millisecond)
	}
}

func (x *world) lockHolderExists() bool {
	r, err := x.w.Etcd.Get(x.w.Ctx, selfmon.ActiveKey)
	return err == nil && len(r.Kvs) > 0
}

// proveWatch: a free-running active watcher must react to a lapse of the probe
// node; repeated until it does (the watch is opened asynchronously).
func (x *world) proveWatch(wt *watcher) bool {
	for try := 0; try < 40; try++ {
		before := wt.cw.setNodeCount(probeNode)
		_ = x.w.C.SetNodeStatus(x.w.Ctx, probeNode, 600)
		time.Sleep(15 * time.Millisecond)
		_ = x.w.C.SetNodeStatus(x.w.Ctx, probeNode, -1)
		for i := 0; i < 20; i++ {
			time.Sleep(10 * time.Millisecond)
			if wt.cw.setNodeCount(probeNode) > before {
				return true
			}
		}
	}
	return false
}

// waitActive waits until some not-stopped watcher has taken the lock and is at
// rest: a free one has opened its stream and proved its watch, a held one has
// reached its (held) NodeStatusStream call.
func (x *world) waitActive() string {
	deadline := time.Now().Add(6 * time.Second)
	type base struct{ streams, lists int }
	for time.Now().Before(deadline) {
		for _, wt := range x.watchers {
			if wt.stopped {
				continue
			}
			_, _, streams, lists, _ := wt.cw.snapshot()
			if wt.held {
				select {
				case <-wt.cw.holdReach:
					_ = lists
					x.quiet(200*time.Millisecond, 3*time.Second)
					x.active = wt
					return "held-active"
				default:
				}
			} else if streams > 0 && lists > 0 {
				// (streams counts every session of this watcher; sessions are torn down
				// before another watcher can register, so a new count means a live session)
				if x.proveWatch(wt) {
					x.initDone(wt, 0)
					x.quiet(100*time.Millisecond, 3*time.Second)
					x.active = wt
					return "active"
				}
				return "watch-not-proved"
			}
		}
		time.Sleep(25 * time.Millisecond)
	}
	return "nobody-active"
}

func runHistory(t *testing.T, name string, acts []action) (res result) {
	res.Name = name
	w := cw.New(t, cw.Options{})
	defer w.Close()
	x := &world{w: w, t: t}
	if err := w.AddPod("p"); err != nil {
		res.Err = err.Error()
		return
	}
	// the probe node: never carries workloads
	if err := w.AddNode(probeNode, "p", 1, 1000); err != nil {
		res.Err = err.Error()
		return
	}
	_ = w.C.SetNodeStatus(w.Ctx, probeNode, -1)
	cfg := w.Cfg
	cfg.ConnectionTimeout = 300 * time.Millisecond
	cfg.HAKeepaliveInterval = 3 * time.Second

	// sessions are counted per watcher; remember the counts at the last step
	sessions := map[*watcher]int{}
	expectTakeover := func() bool { // is there a not-stopped watcher at all?
		for _, wt := range x.watchers {
			if !wt.stopped {
				return true
			}
		}
		return false
	}
	aliveNow := map[int]bool{}
	for _, a := range acts {
		note := ""
		func() {
			switch a.Kind {
			case "addnode":
				if err := w.AddNode(nodeName(a.Node), "p", 8, 1<<30); err != nil {
					note = "err:" + err.Error()
				} else {
					x.nnodes++
					aliveNow[a.Node] = true
				}
			case "heartbeat":
				if err := w.C.SetNodeStatus(w.Ctx, nodeName(a.Node), 600); err != nil {
					note = "err"
				} else {
					aliveNow[a.Node] = true
				}
			case "lapse":
				expect := x.active != nil && !x.active.held && aliveNow[a.Node]
				before := 0
				if expect {
					before = x.active.cw.setNodeCount(nodeName(a.Node))
				}
				if a.Fail && expect {
					aw := x.active
					aw.cw.mu.Lock()
					aw.cw.failNode = nodeName(a.Node)
					f0 := aw.cw.failed
					aw.cw.mu.Unlock()
					expect = false
					defer func() {
						// wait until the injected failure has been delivered (or 12 s), then disarm
						deadline := time.Now().Add(12 * time.Second)
						for time.Now().Before(deadline) {
							aw.cw.mu.Lock()
							done := aw.cw.failed > f0
							aw.cw.mu.Unlock()
							if done {
								break
							}
							time.Sleep(10 * time.Millisecond)
						}
						aw.cw.mu.Lock()
						aw.cw.failNode = ""
						aw.cw.mu.Unlock()
					}()
				}
				if a.Hb && expect {
					// the handler is held at its first call concerning this node; the heartbeat comes
					// back meanwhile; then the handler goes on
					aw := x.active
					aw.cw.mu.Lock()
					aw.cw.gateNode, aw.cw.gate, aw.cw.gateHit = nodeName(a.Node), make(chan struct{}), make(chan struct{})
					g, hit := aw.cw.gate, aw.cw.gateHit
					aw.cw.mu.Unlock()
					_ = w.C.SetNodeStatus(w.Ctx, nodeName(a.Node), -1)
					select {
					case <-hit:
					case <-time.After(12 * time.Second):
						note = "gate-not-reached"
					}
					_ = w.C.SetNodeStatus(w.Ctx, nodeName(a.Node), 600)
					time.Sleep(50 * time.Millisecond)
					aw.cw.mu.Lock()
					aw.cw.gateNode = ""
					aw.cw.mu.Unlock()
					safeClose(g)
					deadline := time.Now().Add(6 * time.Second)
					for time.Now().Before(deadline) && aw.cw.setNodeCount(nodeName(a.Node)) <= before {
						time.Sleep(10 * time.Millisecond)
					}
					return
				}
				if a.Hb {
					_ = w.C.SetNodeStatus(w.Ctx, nodeName(a.Node), -1)
					if w.C.SetNodeStatus(w.Ctx, nodeName(a.Node), 600) == nil {
						aliveNow[a.Node] = true
					}
					return
				}
				delete(aliveNow, a.Node)
				defer0 := func() {
					if !expect {
						return
					}
					// the active watcher is expected to run its handler for this node: wait for it (or 12 s)
					deadline := time.Now().Add(12 * time.Second)
					for time.Now().Before(deadline) && x.active.cw.setNodeCount(nodeName(a.Node)) <= before {
						time.Sleep(10 * time.Millisecond)
					}
				}
				defer defer0()
				if a.Revoke {
					r, err := w.Etcd.Get(w.Ctx, "/status:node/"+nodeName(a.Node))
					if err == nil && len(r.Kvs) == 1 && r.Kvs[0].Lease != 0 {
						_, _ = w.Etcd.Revoke(w.Ctx, clientv3.LeaseID(r.Kvs[0].Lease))
					}
				} else {
					_ = w.C.SetNodeStatus(w.Ctx, nodeName(a.Node), -1)
				}
			case "create":
				ch, err := w.C.CreateWorkload(w.Ctx, &types.DeployOptions{
					Name: "app", Entrypoint: &types.Entrypoint{Name: "web"}, Podname: "p", Image: "img",
					Count: 1, DeployStrategy: "AUTO", NodeFilter: &types.NodeFilter{Podname: "p", Includes: []string{nodeName(a.Node)}},
					Resources: cw.CPUMem(0.1, 1000),
				})
				if err != nil {
					note = "refused"
				} else {
					for m := range ch {
						if m.Error != nil {
							note = "refused"
						} else {
							x.ids = append(x.ids, m.WorkloadID)
						}
					}
				}
				w.Quiesce()
			case "report":
				if a.W < len(x.ids) {
					ttls := map[string]int64{}
					if a.TTL > 0 {
						ttls[x.ids[a.W]] = a.TTL
					}
					if _, err := w.C.SetWorkloadsStatus(w.Ctx, []*types.StatusMeta{{ID: x.ids[a.W], Running: a.R, Healthy: a.H}}, ttls); err != nil {
						note = "err"
					}
				}
			case "start", "startheld":
				c := &clusterW{Cluster: w.C, setNodes: map[string]int{}, last: time.Now()}
				wt := &watcher{cw: c, done: make(chan struct{}), held: a.Kind == "startheld"}
				if wt.held {
					c.hold, c.holdReach = make(chan struct{}), make(chan struct{})
				}
				ctx, cancel := context.WithCancel(w.Ctx)
				wt.cancel = cancel
				sm := selfmon.VerifNew(int64(len(x.watchers)), cfg, c, w.RawStore)
				x.watchers = append(x.watchers, wt)
				go func() { defer close(wt.done); sm.VerifRun(ctx) }()
				if x.active == nil {
					note = x.waitActive()
				} else {
					time.Sleep(150 * time.Millisecond)
				}
			case "release":
				if a.K < len(x.watchers) && x.watchers[a.K].held {
					wt := x.watchers[a.K]
					safeClose(wt.cw.hold)
					wt.cw.mu.Lock()
					wt.cw.hold = nil
					wt.cw.mu.Unlock()
					wt.held = false
					if !wt.stopped {
						select {
						case <-wt.cw.holdReach:
							// it was the active one: its stream opens now
							deadline := time.Now().Add(3 * time.Second)
							for time.Now().Before(deadline) {
								if _, _, s, _, _ := wt.cw.snapshot(); s > 0 {
									break
								}
								time.Sleep(20 * time.Millisecond)
							}
							if x.proveWatch(wt) {
								note = "active"
							} else {
								note = "watch-not-proved"
							}
						default:
						}
					}
				}
			case "stop":
				if a.K < len(x.watchers) && !x.watchers[a.K].stopped {
					wt := x.watchers[a.K]
					for _, o := range x.watchers {
						_, _, s, l, _ := o.cw.snapshot()
						if o.held {
							sessions[o] = l
						} else {
							sessions[o] = s
						}
					}
					wt.cancel()
					if wt.held {
						select {
						case <-wt.cw.hold:
						default:
							safeClose(wt.cw.hold)
						}
					}
					select {
					case <-wt.done:
					case <-time.After(5 * time.Second):
						note = "stop-timeout"
					}
					wt.stopped = true
					if x.active == wt {
						x.active = nil
						if expectTakeover() {
							note += x.waitTakeover(sessions)
						}
					}
				}
			case "expire":
				for _, o := range x.watchers {
					_, _, s, l, _ := o.cw.snapshot()
					if o.held {
						sessions[o] = l
					} else {
						sessions[o] = s
					}
				}
				r, err := w.Etcd.Get(w.Ctx, selfmon.ActiveKey)
				if err == nil && len(r.Kvs) == 1 && r.Kvs[0].Lease != 0 {
					_, _ = w.Etcd.Revoke(w.Ctx, clientv3.LeaseID(r.Kvs[0].Lease))
					x.active = nil
					if expectTakeover() {
						note = x.waitTakeover(sessions)
					}
				}
			}
		}()
		time.Sleep(30 * time.Millisecond)
		x.quiet(120*time.Millisecond, 4*time.Second)
		seen := x.stable()
		res.Slots = append(res.Slots, slotObs{Act: a, Seen: seen, Note: note})
	}
	for _, wt := range x.watchers {
		if !wt.stopped {
			wt.cancel()
			if wt.cw.hold != nil {
				select {
				case <-wt.cw.hold:
				default:
					safeClose(wt.cw.hold)
				}
			}
		}
	}
	for _, wt := range x.watchers {
		select {
		case <-wt.done:
		case <-time.After(3 * time.Second):
		}
	}
	return res
}

// waitTakeover: after the lock was given up, some not-stopped watcher opens a
// NEW session (its stream/list count grows beyond the recorded one).
func (x *world) waitTakeover(sessions map[*watcher]int) string {
	deadline := time.Now().Add(7 * time.Second)
	for time.Now().Before(deadline) {
		for _, wt := range x.watchers {
			if wt.stopped {
				continue
			}
			_, _, streams, lists, _ := wt.cw.snapshot()
			if wt.held {
				select {
				case <-wt.cw.holdReach:
					_ = lists
					x.quiet(200*time.Millisecond, 3*time.Second)
					x.active = wt
					return "held-takeover"
				default:
				}
			} else if streams > sessions[wt] && lists > 0 {
				if x.proveWatch(wt) {
					x.quiet(150*time.Millisecond, 3*time.Second)
					x.active = wt
					return "takeover"
				}
				return "watch-not-proved"
			}
		}
		time.Sleep(25 * time.Millisecond)
	}
	return "no-takeover"
}

// ---- Coq terms ----

func coqAction(a action) string {
	switch a.Kind {
	case "addnode":
		return fmt.Sprintf("(AAddNode %d)", a.Node)
	case "heartbeat":
		return fmt.Sprintf("(AHeartbeat %d)", a.Node)
	case "lapse":
		if a.Fail {
			return fmt.Sprintf("(ALapseFail %d)", a.Node)
		}
		if a.Hb {
			return fmt.Sprintf("(ALapseHb %d)", a.Node)
		}
		return fmt.Sprintf("(ALapse %d)", a.Node)
	case "create":
		return fmt.Sprintf("(ACreate %d)", a.Node)
	case "report":
		return fmt.Sprintf("(AReport %d %s %s)", a.W, vh.Bool(a.R), vh.Bool(a.H))
	case "start":
		return "AStart"
	case "startheld":
		return "AStartHeld"
	case "release":
		return fmt.Sprintf("(ARelease %d)", a.K)
	case "stop":
		return fmt.Sprintf("(AStop %d)", a.K)
	case "expire":
		return fmt.Sprintf("(AExpire %d)", a.K)
	}
	panic("bad action " + a.Kind)
}

func coqSeen(s []string) string {
	out := make([]string, len(s))
	for i, x := range s {
		switch x {
		case "none":
			out[i] = "None"
		case "true,true":
			out[i] = "(Some (true,true))"
		case "true,false":
			out[i] = "(Some (true,false))"
		case "false,true":
			out[i] = "(Some (false,true))"
		case "false,false":
			out[i] = "(Some (false,false))"
		default:
			out[i] = "(Some (true,true)); None" // unreadable status: force a mismatch
		}
	}
	return "[" + strings.Join(out, ";") + "]"
}

func coqCase(res result) string {
	sl := make([]string, len(res.Slots))
	for i, s := range res.Slots {
		sl[i] = fmt.Sprintf("(mkSlot %s %s)", coqAction(s.Act), coqSeen(s.Seen))
	}
	return "(mkCase [" + strings.Join(sl, ";\n    ") + "])"
}

// lapseInStartWindow describes the INPUT: a lapse happens while the only
// started watchers have their NodeStatusStream call held back (lock taken,
// watch not yet open).  Before /repo commit 26913a3 the init pass had already
// run at that point and the lapse was missed for good.
func lapseInStartWindow(acts []action) bool {
	free, held := map[int]bool{}, map[int]bool{}
	alive := map[int]bool{}
	n := 0
	for _, a := range acts {
		switch a.Kind {
		case "addnode", "heartbeat":
			alive[a.Node] = true
		case "start":
			free[n] = true
			n++
		case "startheld":
			held[n] = true
			n++
		case "release":
			if held[a.K] {
				delete(held, a.K)
				free[a.K] = true
			}
		case "stop":
			delete(free, a.K)
			delete(held, a.K)
		case "lapse":
			if alive[a.Node] && len(held) > 0 && len(free) == 0 {
				return true
			}
			if !a.Hb {
				delete(alive, a.Node)
			}
		}
	}
	return false
}

// ---- generators ----

func an(i int) action                   { return action{Kind: "addnode", Node: i} }
func hb(i int) action                   { return action{Kind: "heartbeat", Node: i} }
func lapse(i int) action                { return action{Kind: "lapse", Node: i} }
func lapseFail(i int) action            { return action{Kind: "lapse", Node: i, Fail: true} }
func lapseHb(i int) action              { return action{Kind: "lapse", Node: i, Hb: true} }
func lapseRevoke(i int) action          { return action{Kind: "lapse", Node: i, Revoke: true} }
func create(i int) action               { return action{Kind: "create", Node: i} }
func report(w int, r, h bool) action    { return action{Kind: "report", W: w, R: r, H: h} }
func reportTTL(w int, r, h bool) action { return action{Kind: "report", W: w, R: r, H: h, TTL: 300} }
func stop(k int) action                 { return action{Kind: "stop", K: k} }
func release(k int) action              { return action{Kind: "release", K: k} }
func expire(k int) action               { return action{Kind: "expire", K: k} }

var start = action{Kind: "start"}
var startHeld = action{Kind: "startheld"}

type hist struct {
	name string
	acts []action
}

func corpus() []hist {
	return []hist{
		{"lapse-while-watching", []action{an(0), an(1), start, create(0), create(0), create(1), report(0, true, true), reportTTL(1, true, true), report(2, true, true), lapse(0), hb(0), create(0), lapseRevoke(1)}},
		{"watcher-starts-after-lapse", []action{an(0), an(1), create(0), create(1), report(0, true, true), report(1, true, false), lapse(0), start, report(0, true, true), lapse(1)}},
		// the witness of the start-window finding
		{"lapse-in-start-window", []action{an(0), an(1), create(0), create(1), report(0, true, true), report(1, true, true), startHeld, lapse(0), release(0), lapse(1), stop(0), start}},
		{"expire-reacquire", []action{an(0), an(1), create(0), create(1), report(0, true, true), report(1, true, true), start, expire(0), lapse(0), lapse(1)}},
		{"held-second-watcher", []action{an(0), an(1), create(0), create(1), report(0, true, true), report(1, true, true), start, startHeld, lapse(0), stop(0), lapse(1), release(1)}},
		// a failing SetNode is logged and not retried: the workloads stay up until another activation
		{"handler-fails", []action{an(0), an(1), create(0), create(1), report(0, true, true), report(1, true, true), start, lapseFail(0), lapse(1), hb(0), lapse(0)}},
		// a workload that never reported a status is marked too; a heartbeat coming back is ignored
		// (the agent's reports stand), a second lapse marks again
		{"unreported-and-returning-agent", []action{an(0), start, create(0), create(0), report(0, true, true), lapse(0), report(0, true, true), hb(0), report(1, true, false), lapseRevoke(0)}},
		// the same watcher loses the lock and takes it again: its examination of the current statuses
		// must run again (a node whose handler failed is still without status and not yet marked)
		{"reacquire-examines-again", []action{an(0), an(1), create(0), create(1), report(0, true, true), report(1, true, true), start, lapseFail(0), expire(0), lapse(1)}},
		// a node blip: the status is back before the handler has made its first call; the handler
		// still runs (agents do not re-report workloads after a blip)
		{"blip", []action{an(0), an(1), create(0), create(0), create(1), report(0, true, true), report(1, true, false), report(2, true, true), start, lapseHb(0), lapse(1), lapseHb(1)}},
		{"handover", []action{an(0), an(1), an(2), create(0), create(1), create(2), report(0, true, true), report(1, true, true), report(2, true, true), start, start, lapse(1), stop(0), lapse(2), lapse(0)}},
	}
}

type gen struct {
	rng interface{ Intn(int) int }
}

func (g gen) history(name string, n int) hist {
	acts := []action{an(0), an(1), an(2)}
	alive := map[int]bool{0: true, 1: true, 2: true}
	nw, nwl := 0, 0
	wnode := []int{}
	started := []int{}
	heldW := map[int]bool{}
	for len(acts) < n+3 {
		r := g.rng.Intn(100)
		node := g.rng.Intn(3)
		switch {
		case r < 24:
			if nwl < 6 {
				acts = append(acts, create(node))
				if alive[node] {
					wnode = append(wnode, node)
					nwl++
				}
			}
		case r < 40:
			if nwl > 0 {
				w := g.rng.Intn(nwl)
				a := report(w, g.rng.Intn(4) > 0, g.rng.Intn(4) > 0)
				if g.rng.Intn(3) == 0 {
					a.TTL = 300
				}
				acts = append(acts, a)
			}
		case r < 52:
			acts = append(acts, hb(node))
			alive[node] = true
		case r < 74:
			a := lapse(node)
			a.Revoke = g.rng.Intn(2) == 0
			a.Fail = g.rng.Intn(8) == 0
			if !a.Fail && g.rng.Intn(6) == 0 {
				a.Hb, a.Revoke = true, false
			}
			acts = append(acts, a)
			if a.Hb {
				alive[node] = true
			} else {
				delete(alive, node)
			}
		case r < 90:
			if nw < 2 {
				if g.rng.Intn(6) == 0 {
					acts = append(acts, startHeld)
					heldW[nw] = true
				} else {
					acts = append(acts, start)
				}
				started = append(started, nw)
				nw++
			} else if len(started) == 1 && !heldW[started[0]] && g.rng.Intn(2) == 0 {
				// the only watcher loses its lock lease and has to take it again; half of the time a
				// node is left without status and unmarked (its handler failed) just before
				if alive[node] && g.rng.Intn(2) == 0 {
					acts = append(acts, lapseFail(node))
					delete(alive, node)
				}
				acts = append(acts, expire(started[0]))
			} else if len(started) > 0 && heldW[started[0]] {
				acts = append(acts, release(started[0]))
				delete(heldW, started[0])
			}
		default:
			if len(started) > 0 {
				i := g.rng.Intn(len(started))
				acts = append(acts, stop(started[i]))
				started = append(started[:i], started[i+1:]...)
			}
		}
	}
	// make sure a watcher has been around, and nobody stays held
	if nw == 0 {
		acts = append(acts, start)
	}
	for k := range heldW {
		acts = append(acts, release(k))
	}
	return hist{name, acts}
}

func TestC28(t *testing.T) {
	r := vh.New(t, "C28", "selfmon")
	r.Coq("From Verif Require Import Selfmon.Selfmon.", "Selfmon.case", "Selfmon.agree", "Selfmon.ok")
	g := gen{r.Rng}
	hs := corpus()
	n := r.N(2, 150)
	for i := 0; i < n; i++ {
		hs = append(hs, g.history(fmt.Sprintf("rand-%d", i), 7+r.Rng.Intn(6)))
	}
	dropped := 0
	budget := time.Now().Add(time.Duration(r.N(150, 2000)) * time.Second)
	for _, h := range hs {
		var res result
		valid := false
		for try := 0; try < 3; try++ {
			if try > 0 && !time.Now().Before(budget) {
				break
			}
			valid = false
			j := startJitter()
			res = runHistory(t, h.name, h.acts)
			worst := j.end()
			if res.Err != "" {
				t.Fatalf("history %s: %s", h.name, res.Err)
			}
			if worst <= jitterLimit {
				valid = true
				// a wait that ran into its deadline may be the load or the implementation:
				// run the history again; what persists over three attempts is emitted as observed
				timedOut := false
				for _, sl := range res.Slots {
					switch {
					case strings.Contains(sl.Note, "nobody-active"), strings.Contains(sl.Note, "watch-not-proved"),
						strings.Contains(sl.Note, "no-takeover"), strings.Contains(sl.Note, "stop-timeout"):
						timedOut = true
					}
				}
				if !timedOut || try == 2 {
					break
				}
				r.Count("retry_wait_deadline")
				continue
			}
			r.Count("retry_overloaded")
		}
		if !valid {
			// timers of this process fired more than 400 ms late during every attempt:
			// the waits of the harness are not trustworthy, the observation is not emitted
			dropped++
			r.Count("dropped_overloaded")
			continue
		}
		window := lapseInStartWindow(h.acts)
		for _, a := range h.acts {
			r.Count("action=" + a.Kind)
		}
		for _, s := range res.Slots {
			if s.Note != "" {
				r.Count("note=" + s.Note)
			}
		}
		r.Count(fmt.Sprintf("lapse_in_start_window=%v", window))
		nw := 0
		downs := 0
		if len(res.Slots) > 0 {
			last := res.Slots[len(res.Slots)-1].Seen
			nw = len(last)
			for _, s := range last {
				if s == "false,false" {
					downs++
				}
			}
		}
		r.Count(fmt.Sprintf("workloads=%d", nw))
		r.Add(coqCase(res), res, map[string]any{"lapse_in_start_window": window}, downs > 0)
	}
	r.Count(fmt.Sprintf("dropped=%d", dropped))
	r.Count(fmt.Sprintf("validated=%d", len(hs)-dropped))
	thin := ""
	if dropped*4 > len(hs) {
		thin = fmt.Sprintf("THIN COVERAGE: %d of %d histories dropped because the machine was too loaded (timers > 400 ms late); ", dropped, len(hs))
	}
	r.Finish(thin + "corpus (10 histories incl. the start-window witness, lock expiry, hand-over to a held watcher, an injected SetNode failure) then random histories of 7-12 steps over 3 nodes, <=6 workloads, <=2 watchers " +
		"(create | report | heartbeat | lapse by delete or lease revoke, 1 in 8 with the handler's SetNode failing | start | start held | release | expire | stop); non-trivial = some workload ends reported down")
}
