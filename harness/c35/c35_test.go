// Package c35: correspondence harness for C35 (RPC authentication).
//
// Every case starts a real grpc.Server on an in-memory listener (bufconn) wired
// exactly like core.go does (auth.NewAuth → grpc.StreamInterceptor +
// grpc.UnaryInterceptor, only when the configured username is non-empty) and a
// real grpc.ClientConn wired like client.dial (auth.NewCredential as per-RPC
// credentials, only when the username is non-empty).  One unary RPC (Info) and
// one server-streaming RPC (WatchServiceStatus) of the real CoreRPC service are
// issued.  Observables: status class of each call and the metadata the server
// transport delivered (recorded by a tap handle, i.e. before the interceptors).
package c35

import (
	"context"
	"fmt"
	"io"
	"net"
	"sort"
	"strings"
	"testing"
	"time"

	"verifharness/vh"

	"github.com/projecteru2/core/auth"
	pb "github.com/projecteru2/core/rpc/gen"
	"github.com/projecteru2/core/types"

	"google.golang.org/grpc"
	"google.golang.org/grpc/credentials/insecure"
	"google.golang.org/grpc/metadata"
	"google.golang.org/grpc/status"
	"google.golang.org/grpc/tap"
	"google.golang.org/grpc/test/bufconn"
)

type srv struct {
	pb.UnimplementedCoreRPCServer
}

func (srv) Info(context.Context, *pb.Empty) (*pb.CoreInfo, error) {
	return &pb.CoreInfo{Version: "verif"}, nil
}

func (srv) WatchServiceStatus(_ *pb.Empty, s pb.CoreRPC_WatchServiceStatusServer) error {
	if err := s.Send(&pb.ServiceStatus{Addresses: []string{"a"}}); err != nil {
		return err
	}
	return nil
}

type obs struct {
	Unary  string              `json:"unary"`
	Stream string              `json:"stream"`
	MD     map[string][]string `json:"server_metadata"`
}

func classify(err error) string {
	if err == nil {
		return "Accept"
	}
	st, _ := status.FromError(err)
	switch st.Message() {
	case types.ErrInvaildGRPCRequestMeta.Error():
		return "RejMeta"
	case types.ErrInvaildGRPCUsername.Error():
		return "RejUser"
	case types.ErrInvaildGRPCPassword.Error():
		return "RejPass"
	}
	return "Other"
}

// runCase: one server, one client, one unary + one streaming call.
func runCase(us, ps, uc, pc string) (o obs, detail string) {
	lis := bufconn.Listen(1 << 16)
	var seen metadata.MD
	opts := []grpc.ServerOption{
		grpc.InTapHandle(func(ctx context.Context, info *tap.Info) (context.Context, error) {
			if seen == nil {
				seen = info.Header.Copy()
			}
			return ctx, nil
		}),
	}
	// core.go: serve()
	cfg := types.AuthConfig{Username: us, Password: ps}
	if cfg.Username != "" {
		a := auth.NewAuth(cfg)
		opts = append(opts, grpc.StreamInterceptor(a.StreamInterceptor))
		opts = append(opts, grpc.UnaryInterceptor(a.UnaryInterceptor))
	}
	gs := grpc.NewServer(opts...)
	pb.RegisterCoreRPCServer(gs, srv{})
	done := make(chan struct{})
	go func() { _ = gs.Serve(lis); close(done) }()
	defer func() { gs.Stop(); <-done }()

	// client/client.go: dial()
	ccfg := types.AuthConfig{Username: uc, Password: pc}
	dopts := []grpc.DialOption{
		grpc.WithTransportCredentials(insecure.NewCredentials()),
		grpc.WithContextDialer(func(ctx context.Context, _ string) (net.Conn, error) { return lis.DialContext(ctx) }),
	}
	if ccfg.Username != "" {
		dopts = append(dopts, grpc.WithPerRPCCredentials(auth.NewCredential(ccfg)))
	}
	ctx, cancel := context.WithTimeout(context.Background(), 5*time.Second)
	defer cancel()
	conn, err := grpc.DialContext(ctx, "passthrough:///bufnet", dopts...)
	if err != nil {
		return obs{Unary: "Other", Stream: "Other"}, "dial: " + err.Error()
	}
	defer conn.Close()
	cli := pb.NewCoreRPCClient(conn)

	_, uerr := cli.Info(ctx, &pb.Empty{})
	o.Unary = classify(uerr)
	if uerr != nil {
		detail += "unary: " + uerr.Error() + "; "
	}

	var serr error
	st, serr := cli.WatchServiceStatus(ctx, &pb.Empty{})
	n := 0
	if serr == nil {
		for {
			_, e := st.Recv()
			if e == io.EOF {
				break
			}
			if e != nil {
				serr = e
				break
			}
			n++
		}
	}
	o.Stream = classify(serr)
	if serr == nil && n != 1 {
		o.Stream = "Other"
		detail += fmt.Sprintf("stream delivered %d messages; ", n)
	}
	if serr != nil {
		detail += "stream: " + serr.Error()
	}
	o.MD = map[string][]string{}
	for k, v := range seen {
		o.MD[k] = v
	}
	return o, detail
}

const keyChars = "abcdefghijklmnopqrstuvwxyzABCDEFGHIJKLMNOPQRSTUVWXYZ0123456789_.-"

func coqMD(md map[string][]string) string {
	ks := make([]string, 0, len(md))
	for k := range md {
		ks = append(ks, k)
	}
	sort.Strings(ks)
	items := make([]string, len(ks))
	for i, k := range ks {
		items[i] = vh.Pair(vh.Str(k), vh.StrList(md[k]))
	}
	return vh.List(items)
}

func hasUpper(s string) bool { return strings.ToLower(s) != s }

// isStdKey mirrors Auth.is_std_key: header names owned by HTTP/2 / gRPC.
func isStdKey(k string) bool {
	k = strings.ToLower(k)
	if strings.HasPrefix(k, ":") || strings.HasPrefix(k, "grpc-") {
		return true
	}
	switch k {
	case "content-type", "user-agent", "te", "connection", "host":
		return true
	}
	return false
}

func TestC35(t *testing.T) {
	r := vh.New(t, "C35", "auth")
	r.Coq("From Verif Require Import Rpc.Auth.", "Auth.case", "Auth.agree", "Auth.ok")
	rng := r.Rng

	randKey := func() string {
		for {
			n := 1 + rng.Intn(8)
			b := make([]byte, n)
			for i := range b {
				b[i] = keyChars[rng.Intn(len(keyChars))]
			}
			if !isStdKey(string(b)) { // e.g. "te" is a protocol header, not valid as metadata
				return string(b)
			}
		}
	}
	randPass := func() string {
		if rng.Intn(8) == 0 {
			return ""
		}
		n := 1 + rng.Intn(10)
		b := make([]byte, n)
		for i := range b {
			b[i] = byte(0x20 + rng.Intn(0x7f-0x20))
		}
		return string(b)
	}
	flipCase := func(s string) string {
		b := []byte(s)
		changed := false
		for tries := 0; tries < 8 && !changed; tries++ {
			for i := range b {
				c := b[i]
				if rng.Intn(2) == 0 {
					continue
				}
				switch {
				case c >= 'a' && c <= 'z':
					b[i] = c - 32
					changed = true
				case c >= 'A' && c <= 'Z':
					b[i] = c + 32
					changed = true
				}
			}
		}
		return string(b)
	}

	emit := func(kind string, us, ps, uc, pc string) {
		o, detail := runCase(us, ps, uc, pc)
		term := fmt.Sprintf("(mkCase %s %s %s %s %s %s %s)", vh.Str(us), vh.Str(ps), vh.Str(uc), vh.Str(pc),
			coqMD(o.MD), o.Unary, o.Stream)
		desc := map[string]any{"kind": kind, "server_user": us, "server_pass": ps, "client_user": uc, "client_pass": pc,
			"observed": o, "detail": detail}
		if isStdKey(us) && us != "" {
			r.Count("server_user_is_protocol_header(outside domain)")
		}
		tags := map[string]any{"kind": kind, "server_user_has_upper": hasUpper(us), "same_credentials": us == uc && ps == pc}
		r.Count("kind=" + kind)
		r.Count("unary=" + o.Unary)
		r.Count("stream=" + o.Stream)
		if hasUpper(us) {
			r.Count("server_user_has_upper")
		}
		nontrivial := us != "" && uc != "" && strings.EqualFold(us, uc)
		r.Add(term, desc, tags, nontrivial)
	}

	// ---- corpus: boundary cases and the witness of the (repaired) defect ----
	corpus := [][4]string{
		{"Admin", "secret", "Admin", "secret"}, // witness: identical credentials with upper-case letters
		{"admin", "secret", "admin", "secret"},
		{"admin", "secret", "Admin", "secret"},
		{"ADMIN", "secret", "admin", "secret"},
		{"admin", "secret", "admin", "Secret"},
		{"admin", "secret", "admin", ""},
		{"admin", "", "admin", ""},
		{"Admin", "", "aDMIN", ""},
		{"admin", "secret", "admim", "secret"},
		{"admin", "secret", "", ""},        // client without credentials
		{"", "", "admin", "secret"},        // auth not configured on the server
		{"", "", "", ""},                   // neither side
		{"a", " ", "a", " "},               // password of one space
		{"a", " x ", "a", " x "},           // leading/trailing spaces
		{"a", "x", "a", "x "},              // differ by trailing space
		{"u-s_e.r9", "~!@#$%^&*()_+{}|:\"<>?`-=[]\\;',./", "U-S_E.R9", "~!@#$%^&*()_+{}|:\"<>?`-=[]\\;',./"},
		{"key-bin", "p\x00\xffq", "Key-Bin", "p\x00\xffq"}, // -bin keys carry arbitrary bytes (base64 on the wire)
		{"key-bin", "", "key-bin", ""},
		{"x", "secret", "x", "secret,secret"},
		{"Z", "9", "z", "9"},
	}
	for _, c := range corpus {
		emit("corpus", c[0], c[1], c[2], c[3])
	}

	// ---- structured random pairs (all valid as metadata) ----
	n := r.N(220, 4000)
	for i := 0; i < n; i++ {
		us, ps := randKey(), randPass()
		var uc, pc, kind string
		switch x := rng.Intn(100); {
		case x < 40:
			uc, pc, kind = us, ps, "same"
		case x < 60:
			uc, pc, kind = flipCase(us), ps, "case-only"
		case x < 80:
			uc, pc, kind = us, randPass(), "password-only"
			if rng.Intn(3) == 0 {
				pc = flipCase(ps)
			}
		case x < 90:
			uc, pc, kind = flipCase(us), randPass(), "case+password"
		default:
			uc, pc, kind = randKey(), ps, "other-user"
		}
		emit(kind, us, ps, uc, pc)
	}
	// ---- malformed stream: user names that are protocol header names ----
	malformed := [][4]string{
		{"te", "d", "te", "d"},
		{"TE", "trailers", "x", "y"},
		{"user-agent", "grpc-go/1.60.1", "someone", "else"},
		{"admin", "secret", "user-agent", "secret"},
		{"admin", "secret", "content-type", "application/grpc"},
		{"admin", "secret", "te", "secret"},
		{"admin", "secret", "grpc-status", "secret"},
		{"admin", "secret", "Host", "secret"},
		{"host", "bufnet", "host", "bufnet"},
		{"grpc-foo", "p", "grpc-foo", "p"},
	}
	for _, c := range malformed {
		emit("malformed", c[0], c[1], c[2], c[3])
	}
	r.Finish("corpus of 20 boundary pairs, then random pairs: user names over [A-Za-z0-9_.-]{1,8} (mixed case), passwords printable ASCII incl. empty; 40% identical, 20% differing in case of the user name only, 20% in the password only, 10% both, 10% unrelated user; then 10 malformed pairs whose user name is a protocol header name (outside the domain: only 'no accept for a valid server user without matching credentials' is checked); each pair = one real grpc server+client over bufconn, one unary and one streaming call; non-trivial = user names equal up to case")
}
