// Package c31: correspondence harness for C31 (docker engine settings).
//
// Three ways into the real code:
//   direct  makeResourceSetting through the verif export hook;
//   create  Engine.VirtualizationCreate with a fake docker API client, capturing HostConfig.Resources;
//   update  Engine.VirtualizationUpdateResource with the mock (Info gives NCPU),
//           capturing UpdateConfig.Resources.
// Engine parameters are built as the cpumem plugin builds them
// (cpumemtypes.EngineParams → mapstructure → resourcetypes.RawParams).
package c31

import (
	"context"
	"errors"
	"fmt"
	"math"
	"sort"
	"strconv"
	"strings"
	"testing"

	"verifharness/vh"

	dockertypes "github.com/docker/docker/api/types"
	dockercontainer "github.com/docker/docker/api/types/container"
	"github.com/mitchellh/mapstructure"
	dockernetwork "github.com/docker/docker/api/types/network"
	dockerapi "github.com/docker/docker/client"
	ocispec "github.com/opencontainers/image-spec/specs-go/v1"

	"github.com/projecteru2/core/engine/docker"
	"github.com/projecteru2/core/resource/plugins/cpumem"
	enginetypes "github.com/projecteru2/core/engine/types"
	cpumemtypes "github.com/projecteru2/core/resource/plugins/cpumem/types"
	resourcetypes "github.com/projecteru2/core/resource/types"
	coretypes "github.com/projecteru2/core/types"
)

type params struct {
	CPU    float64 `json:"cpu"`
	Memory int64   `json:"memory"`
	Cores  []int   `json:"cores"` // cpu_map keys
	NUMA   string  `json:"numa_node"`
	Remap  bool    `json:"remap"`
	NCPU   int     `json:"ncpu"` // cores of the node (update path: Info().NCPU)
}

type settings struct {
	Outcome     string `json:"outcome"` // Ok | ErrInvalidMemory | ErrOther
	CPUQuota    int64  `json:"cpu_quota"`
	CPUPeriod   int64  `json:"cpu_period"`
	CPUShares   int64  `json:"cpu_shares"`
	CpusetCpus  []int  `json:"cpuset_cpus"`
	CpusetMems  string `json:"cpuset_mems"`
	Memory      int64  `json:"memory"`
	MemorySwap  int64  `json:"memory_swap"`
	Reservation int64  `json:"memory_reservation"`
}

func fromResources(r dockercontainer.Resources) settings {
	s := settings{Outcome: "Ok", CPUQuota: r.CPUQuota, CPUPeriod: r.CPUPeriod, CPUShares: r.CPUShares,
		CpusetMems: r.CpusetMems, Memory: r.Memory, MemorySwap: r.MemorySwap, Reservation: r.MemoryReservation}
	if r.CpusetCpus != "" {
		for _, p := range strings.Split(r.CpusetCpus, ",") {
			v, err := strconv.Atoi(p)
			if err != nil {
				v = -1
			}
			s.CpusetCpus = append(s.CpusetCpus, v)
		}
		sort.Ints(s.CpusetCpus)
	}
	return s
}

func cpuMapOf(p params, shareBase int) map[string]int {
	m := map[string]int{}
	for _, c := range p.Cores {
		m[strconv.Itoa(c)] = shareBase
	}
	return m
}

// engine params as the cpumem plugin hands them to the engine
func engineParams(p params) resourcetypes.Resources {
	ep := &cpumemtypes.EngineParams{CPU: p.CPU, CPUMap: cpumemtypes.CPUMap(cpuMapOf(p, 100)), NUMANode: p.NUMA, Memory: p.Memory, Remap: p.Remap}
	raw := resourcetypes.RawParams{}
	if err := mapstructure.Decode(ep, &raw); err != nil {
		panic(err)
	}
	return resourcetypes.Resources{"cpumem": raw}
}

func errClass(err error) string {
	switch {
	case errors.Is(err, coretypes.ErrInvaildMemory):
		return "ErrInvalidMemory"
	}
	return "ErrOther"
}

func runDirect(p params) settings {
	m := map[string]int64{}
	for _, c := range p.Cores {
		m[strconv.Itoa(c)] = 100
	}
	return fromResources(docker.VerifMakeResourceSetting(p.CPU, p.Memory, m, p.NUMA, nil, p.Remap))
}

// fakeClient implements the docker API client by embedding the interface (nil)
// and overriding the four calls the two anchored paths make; any other call
// would panic (caught and reported as ErrOther).  The generated
// engine/docker/mocks.APIClient cannot be used: it no longer implements the
// vendored dockerapi.APIClient interface (VolumeList signature drifted).
type fakeClient struct {
	dockerapi.APIClient
	ncpu     int
	captured *dockercontainer.Resources
	called   *bool
}

func (f *fakeClient) DaemonHost() string { return "tcp://127.0.0.1:2376" }
func (f *fakeClient) Info(context.Context) (dockertypes.Info, error) {
	return dockertypes.Info{ID: "node", NCPU: f.ncpu, MemTotal: 1 << 40}, nil
}
func (f *fakeClient) ContainerCreate(_ context.Context, _ *dockercontainer.Config, hc *dockercontainer.HostConfig, _ *dockernetwork.NetworkingConfig, _ *ocispec.Platform, _ string) (dockercontainer.CreateResponse, error) {
	*f.captured = hc.Resources
	*f.called = true
	return dockercontainer.CreateResponse{ID: "cid"}, nil
}
func (f *fakeClient) ContainerUpdate(_ context.Context, _ string, uc dockercontainer.UpdateConfig) (dockercontainer.ContainerUpdateOKBody, error) {
	*f.captured = uc.Resources
	*f.called = true
	return dockercontainer.ContainerUpdateOKBody{}, nil
}

func newEngine(p params, captured *dockercontainer.Resources, called *bool) *docker.Engine {
	cli := &fakeClient{ncpu: p.NCPU, captured: captured, called: called}
	cfg := coretypes.Config{}
	cfg.Scheduler.ShareBase = 100
	cfg.Docker.NetworkMode = "host"
	return docker.VerifNewEngine(cli, cfg)
}

func runCreate(p params) (s settings) {
	var captured dockercontainer.Resources
	called := false
	defer func() {
		if r := recover(); r != nil {
			s = settings{Outcome: "ErrOther"}
		}
	}()
	e := newEngine(p, &captured, &called)
	_, err := e.VirtualizationCreate(context.Background(), &enginetypes.VirtualizationCreateOptions{
		EngineParams: engineParams(p), Name: "w", Image: "img", Labels: map[string]string{},
	})
	if err != nil {
		return settings{Outcome: errClass(err)}
	}
	if !called {
		return settings{Outcome: "ErrOther"}
	}
	return fromResources(captured)
}

func runUpdate(p params) (s settings) {
	var captured dockercontainer.Resources
	called := false
	defer func() {
		if r := recover(); r != nil {
			s = settings{Outcome: "ErrOther"}
		}
	}()
	e := newEngine(p, &captured, &called)
	err := e.VirtualizationUpdateResource(context.Background(), "cid", engineParams(p))
	if err != nil {
		return settings{Outcome: errClass(err)}
	}
	if !called {
		return settings{Outcome: "ErrOther"}
	}
	return fromResources(captured)
}

func coqInts(v []int) string {
	s := make([]string, len(v))
	for i, x := range v {
		s[i] = vh.ZI(x)
	}
	return vh.List(s)
}

// ---------------------------------------------------------------- chain

// caseTerm prints one Docker.case: parameters decoded from engine params + observed settings.
func caseTerm(path string, p params, s settings) string {
	cores := append([]int(nil), p.Cores...)
	sort.Ints(cores)
	return fmt.Sprintf("(mkCase %s (mkParams %s %s %s %s %s) %s (mkObs %s %s %s %s %s %s %s %s %s))",
		path, vh.F64(p.CPU), vh.Z(p.Memory), coqInts(cores), vh.Str(p.NUMA), vh.Bool(p.Remap), vh.ZI(p.NCPU),
		s.Outcome, vh.Z(s.CPUQuota), vh.Z(s.CPUPeriod), vh.Z(s.CPUShares), coqInts(s.CpusetCpus), vh.Str(s.CpusetMems),
		vh.Z(s.Memory), vh.Z(s.MemorySwap), vh.Z(s.Reservation))
}

// run the engine on raw engine parameters exactly as the plugin returned them
func engineOn(path string, ncpu int, raw resourcetypes.RawParams) (s settings) {
	var captured dockercontainer.Resources
	called := false
	defer func() {
		if r := recover(); r != nil {
			s = settings{Outcome: "ErrOther"}
		}
	}()
	e := newEngine(params{NCPU: ncpu}, &captured, &called)
	var err error
	res := resourcetypes.Resources{"cpumem": raw}
	if path == "PCreate" {
		_, err = e.VirtualizationCreate(context.Background(), &enginetypes.VirtualizationCreateOptions{
			EngineParams: res, Name: "w", Image: "img", Labels: map[string]string{}})
	} else {
		err = e.VirtualizationUpdateResource(context.Background(), "cid", res)
	}
	if err != nil {
		return settings{Outcome: errClass(err)}
	}
	if !called {
		return settings{Outcome: "ErrOther"}
	}
	return fromResources(captured)
}

func decodeEP(raw resourcetypes.RawParams, ncpu int) (params, *cpumemtypes.EngineParams) {
	ep := &cpumemtypes.EngineParams{}
	if err := mapstructure.Decode(raw, ep); err != nil {
		panic(err)
	}
	p := params{CPU: ep.CPU, Memory: ep.Memory, NUMA: ep.NUMANode, Remap: ep.Remap, NCPU: ncpu}
	for k := range ep.CPUMap {
		v, err := strconv.Atoi(k)
		if err != nil {
			v = -1
		}
		p.Cores = append(p.Cores, v)
	}
	sort.Ints(p.Cores)
	return p, ep
}

func fragPieces(m cpumemtypes.CPUMap, base int) int {
	for _, v := range m {
		if v > 0 && v < base {
			return v
		}
	}
	return 0
}

func sameMap(a, b cpumemtypes.CPUMap) bool {
	if len(a) != len(b) {
		return false
	}
	for k, v := range a {
		if b[k] != v {
			return false
		}
	}
	return true
}

func testChain(t *testing.T) {
	r := vh.New(t, "C31", "chain")
	r.Coq("From Verif Require Import Base.GoFloat Engine.Docker.", "Docker.chain", "Docker.cagree", "Docker.cok")
	r.Extra("Close Scope Z_scope. (* Base.GoFloat opens it; string bytes are nat literals *)")
	rng := r.Rng
	const MiB = int64(1 << 20)
	const base = 100
	ctx := context.Background()
	cfg := coretypes.Config{
		Etcd:      coretypes.EtcdConfig{Prefix: "/verif-c31"},
		Scheduler: coretypes.SchedulerConfig{MaxShare: -1, ShareBase: base},
	}
	pl, err := cpumem.NewPlugin(ctx, cfg, t)
	if err != nil {
		t.Fatalf("NewPlugin: %v", err)
	}
	emit := func(step, path string, ncpu int, raw resourcetypes.RawParams, wr *cpumemtypes.WorkloadResource, class string) {
		p, ep := decodeEP(raw, ncpu)
		s := engineOn(path, ncpu, raw)
		consistent := true
		frag := 0
		if wr != nil {
			consistent = ep.CPU == wr.CPULimit && ep.Memory == wr.MemoryLimit && ep.NUMANode == wr.NUMANode
			if !ep.Remap {
				consistent = consistent && sameMap(ep.CPUMap, wr.CPUMap)
				frag = fragPieces(wr.CPUMap, base)
			} else {
				consistent = consistent && len(wr.CPUMap) == 0 // only unbound workloads are remapped
			}
		}
		term := fmt.Sprintf("(mkChain %s %s %s %s)", caseTerm(path, p, s), vh.ZI(frag), vh.ZI(base), vh.Bool(consistent))
		desc := map[string]any{"step": step, "path": path, "class": class, "engine_params": raw, "workload_resource": wr, "observed": s, "fragment_pieces": frag}
		r.Count("step=" + step)
		r.Count("class=" + class)
		r.Count("outcome=" + s.Outcome)
		if frag > 0 {
			r.Count("bound-with-fragment")
		}
		r.Add(term, desc, map[string]any{"stream": "chain", "step": step, "class": class}, s.Outcome == "Ok")
	}
	parseWR := func(raw resourcetypes.RawParams) *cpumemtypes.WorkloadResource {
		wr := &cpumemtypes.WorkloadResource{}
		if err := wr.Parse(raw); err != nil {
			t.Fatalf("parse workload resource: %v", err)
		}
		return wr
	}
	n := r.N(120, 1500)
	for i := 0; i < n; i++ {
		name := fmt.Sprintf("c31-%d-%d", r.Seed, i)
		ncpu := 2 + rng.Intn(7)
		nodeRaw := resourcetypes.RawParams{"cpu": ncpu, "memory": int64(64) << 30}
		if rng.Intn(3) == 0 && ncpu%2 == 0 { // two NUMA nodes
			var a, b []string
			for c := 0; c < ncpu; c++ {
				if c < ncpu/2 {
					a = append(a, strconv.Itoa(c))
				} else {
					b = append(b, strconv.Itoa(c))
				}
			}
			nodeRaw["numa-cpu"] = []string{strings.Join(a, ","), strings.Join(b, ",")}
			nodeRaw["numa-memory"] = []string{"32G", "32G"}
		}
		if _, err := pl.AddNode(ctx, name, nodeRaw, nil); err != nil {
			t.Fatalf("AddNode: %v", err)
		}
		bind := rng.Intn(100) < 60
		var cpu float64
		switch x := rng.Intn(100); {
		case x < 25:
			cpu = float64(1 + rng.Intn(ncpu-1))
		case x < 90:
			cpu = float64(1+rng.Intn((ncpu-1)*100)) / 100
		default:
			cpu = 0
		}
		if bind && cpu == 0 {
			cpu = 0.5
		}
		mem := int64(4+rng.Intn(4096)) * MiB
		if rng.Intn(10) == 0 {
			mem = 0
		}
		req := resourcetypes.RawParams{"cpu-bind": bind, "cpu-request": cpu, "cpu-limit": cpu, "memory-request": mem, "memory-limit": mem}
		class := "unbound"
		if bind {
			class = "bound"
		}
		dresp, err := pl.CalculateDeploy(ctx, name, 1, req)
		if err != nil || len(dresp.EnginesParams) != 1 {
			r.Count("deploy-refused")
			continue
		}
		wr := parseWR(dresp.WorkloadsResource[0])
		emit("deploy", "PCreate", ncpu, dresp.EnginesParams[0], wr, class)
		// account the workload, then realloc it
		if _, err := pl.SetNodeResourceUsage(ctx, name, nil, nil, []resourcetypes.RawParams{dresp.WorkloadsResource[0]}, true, true); err != nil {
			t.Fatalf("SetNodeResourceUsage: %v", err)
		}
		var dcpu float64
		switch rng.Intn(3) {
		case 0:
			dcpu = float64(rng.Intn(100)) / 100
		case 1:
			dcpu = -float64(rng.Intn(int(cpu*100)+1)) / []float64{100, 100, 100, 200}[rng.Intn(4)]
		}
		dmem := int64(rng.Intn(512)) * MiB
		rreq := resourcetypes.RawParams{"keep-cpu-bind": bind && rng.Intn(4) > 0, "cpu-bind": bind && rng.Intn(4) > 0,
			"cpu-request": dcpu, "cpu-limit": dcpu, "memory-request": dmem, "memory-limit": dmem}
		cur := dresp.WorkloadsResource[0]
		if rresp, err := pl.CalculateRealloc(ctx, name, cur, rreq); err == nil {
			wr2 := parseWR(rresp.WorkloadResource)
			c2 := "unbound"
			if len(wr2.CPUMap) > 0 {
				c2 = "bound"
			}
			emit("realloc", "PUpdate", ncpu, rresp.EngineParams, wr2, c2)
			if _, err := pl.SetNodeResourceUsage(ctx, name, nil, nil, []resourcetypes.RawParams{rresp.DeltaResource}, true, true); err == nil {
				cur = rresp.WorkloadResource
			}
		} else {
			r.Count("realloc-refused")
		}
		// remap: only unbound workloads get parameters
		mresp, err := pl.CalculateRemap(ctx, name, map[string]resourcetypes.RawParams{"w": cur})
		if err != nil {
			t.Fatalf("CalculateRemap: %v", err)
		}
		if ep, ok := mresp.EngineParamsMap["w"]; ok {
			emit("remap", "PUpdate", ncpu, ep, parseWR(cur), "remap")
		} else {
			r.Count("remap-none(bound)")
		}
		if _, err := pl.RemoveNode(ctx, name); err != nil {
			t.Fatalf("RemoveNode: %v", err)
		}
	}
	r.Finish("end to end: nodes of 2-8 cores (one third with two NUMA nodes) added to the real cpumem plugin on embedded etcd; a request (60% cpu-bind, cpu 0 / whole / 0.01 grid, memory 0 or MiB multiples) goes through CalculateDeploy -> VirtualizationCreate, then (usage recorded) CalculateRealloc with a cpu/memory delta (keep-bind / bind / neither) -> VirtualizationUpdateResource, then CalculateRemap -> VirtualizationUpdateResource; the engine receives the plugin's raw engine parameters unchanged; non-trivial = the engine accepted them")
}

func TestC31(t *testing.T) {
	t.Run("settings", testSettings)
	t.Run("chain", testChain)
}

func testSettings(t *testing.T) {
	r := vh.New(t, "C31", "settings")
	r.Coq("From Verif Require Import Base.GoFloat Engine.Docker.", "Docker.case", "Docker.agree", "Docker.ok")
	r.Extra("Close Scope Z_scope. (* Base.GoFloat opens it; string bytes are nat literals *)")
	rng := r.Rng
	const MiB = int64(1 << 20)

	emit := func(kind string, path string, p params) {
		var s settings
		switch path {
		case "PDirect":
			s = runDirect(p)
		case "PCreate":
			s = runCreate(p)
		default:
			s = runUpdate(p)
		}
		sort.Ints(p.Cores)
		term := fmt.Sprintf("(mkCase %s (mkParams %s %s %s %s %s) %s (mkObs %s %s %s %s %s %s %s %s %s))",
			path, vh.F64(p.CPU), vh.Z(p.Memory), coqInts(p.Cores), vh.Str(p.NUMA), vh.Bool(p.Remap), vh.ZI(p.NCPU),
			s.Outcome, vh.Z(s.CPUQuota), vh.Z(s.CPUPeriod), vh.Z(s.CPUShares), coqInts(s.CpusetCpus), vh.Str(s.CpusetMems),
			vh.Z(s.Memory), vh.Z(s.MemorySwap), vh.Z(s.Reservation))
		class := "unbound"
		switch {
		case p.Remap:
			class = "remap"
		case len(p.Cores) > 0:
			class = "bound"
		}
		frac := p.CPU != math.Trunc(p.CPU)
		tags := map[string]any{"kind": kind, "path": path, "class": class, "cpu_positive": p.CPU > 0, "cpu_fractional": frac,
			"memory_positive": p.Memory > 0}
		desc := map[string]any{"kind": kind, "path": path, "params": p, "observed": s}
		r.Count("path=" + path)
		r.Count("class=" + class)
		r.Count("outcome=" + s.Outcome)
		if frac {
			r.Count("cpu=fractional")
		} else if p.CPU == 0 {
			r.Count("cpu=zero")
		} else {
			r.Count("cpu=whole")
		}
		if p.Memory == 0 {
			r.Count("memory=zero")
		}
		r.Add(term, desc, tags, s.Outcome == "Ok" && (p.CPU > 0 || len(p.Cores) > 0))
	}

	paths := []string{"PDirect", "PCreate", "PUpdate"}
	// ---- corpus ----
	corpus := []params{
		{0.29, 64 * MiB, nil, "", false, 4},                  // unbound, quota of 0.29 cpu (truncation witness)
		{0.5, 64 * MiB, nil, "", false, 4},                   // unbound with a positive limit (update witness)
		{1.2, 512 * MiB, []int{0, 1}, "", false, 4},          // bound, fragment .2
		{2, 512 * MiB, []int{2, 3}, "1", false, 4},           // bound whole cores on a NUMA node
		{0.57, 128 * MiB, []int{1}, "0", false, 2},           // bound fragment only
		{1.15, 128 * MiB, []int{0, 1}, "", false, 2},         // 1024*.15 = 153.6
		{0.5, 64 * MiB, []int{0, 1, 2, 3}, "", true, 4},      // remapped unbound workload
		{0, 64 * MiB, []int{0, 1, 2, 3}, "", true, 4},        // remapped, unlimited cpu
		{0, 0, nil, "", false, 4},                            // everything unlimited
		{0, 6 * MiB, nil, "", false, 1},                      // reservation floor 4 MiB
		{1, 4 * MiB, nil, "", false, 1},                      // minimum memory
		{1, 4*MiB - 1, nil, "", false, 1},                    // below minimum
		{1, 1, nil, "", false, 1},                            // below minimum
		{1, -1, nil, "", false, 1},                           // negative memory
		{0.01, 8 * MiB, nil, "", false, 8},                   // smallest decimal
		{63.99, 8 * MiB, nil, "", false, 64},                 //
		{3, 1 << 40, []int{5, 6, 7}, "", false, 8},           //
		{1.005, 64 * MiB, []int{0, 1}, "", false, 2},         // fragment .005 -> shares 5
		{1.0004, 64 * MiB, []int{0, 1}, "", false, 2},        // fragment rounds to 0 shares
	}
	for _, p := range corpus {
		for _, path := range paths {
			emit("corpus", path, p)
		}
	}

	// ---- structured random engine parameters ----
	n := r.N(400, 6000)
	for i := 0; i < n; i++ {
		var p params
		p.NCPU = 1 + rng.Intn(16)
		// cpu limit: mostly on the 0.01 grid
		switch x := rng.Intn(100); {
		case x < 10:
			p.CPU = 0
		case x < 30:
			p.CPU = float64(1 + rng.Intn(p.NCPU))
		case x < 85:
			p.CPU = float64(1+rng.Intn(p.NCPU*100)) / 100
		case x < 95:
			p.CPU = float64(1+rng.Intn(p.NCPU*1000)) / 1000
		default:
			p.CPU = rng.Float64() * float64(p.NCPU)
		}
		// memory limit
		switch x := rng.Intn(100); {
		case x < 10:
			p.Memory = 0
		case x < 15:
			p.Memory = 4*MiB + int64(rng.Intn(int(8*MiB)))
		case x < 20:
			p.Memory = int64(rng.Intn(int(4 * MiB))) // invalid (below minimum) or 0
		case x < 22:
			p.Memory = -int64(1 + rng.Intn(1000))
		default:
			p.Memory = int64(4+rng.Intn(65536)) * MiB
		}
		kind := "unbound"
		switch x := rng.Intn(100); {
		case x < 40: // bound: ceil(cpu) cores
			if p.CPU > 0 {
				need := int(math.Ceil(p.CPU))
				perm := rng.Perm(p.NCPU)
				if need > p.NCPU {
					need = p.NCPU
				}
				p.Cores = append([]int(nil), perm[:need]...)
				if rng.Intn(3) == 0 {
					p.NUMA = strconv.Itoa(rng.Intn(2))
				}
				kind = "bound"
			}
		case x < 60: // remapped: shared core set
			k := 1 + rng.Intn(p.NCPU)
			p.Cores = append([]int(nil), rng.Perm(p.NCPU)[:k]...)
			p.Remap = true
			kind = "remap"
		}
		path := paths[rng.Intn(3)]
		if p.Remap && rng.Intn(4) != 0 {
			path = "PUpdate" // remap parameters only ever reach the update path
		}
		emit(kind, path, p)
	}
	r.Finish("corpus of 19 parameter sets x 3 paths (direct/create/update), then random engine parameters as the cpumem plugin produces them: cpu limit 0 / whole / 0.01 grid / 0.001 grid / arbitrary float, memory 0 / small / invalid / negative / MiB multiples, class bound (ceil(cpu) cores, optional NUMA node) / remapped (shared core set) / unbound, node of 1-16 cores; non-trivial = accepted and (cpu limit > 0 or a core set)")
}
