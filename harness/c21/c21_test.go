package c21

import (
	"context"
	"fmt"
	"path/filepath"
	"sort"
	"strings"
	"testing"
	"time"

	"verifharness/vh"

	"github.com/alicebob/miniredis/v2"
	"github.com/projecteru2/core/cluster/calcium"
	enginefactory "github.com/projecteru2/core/engine/factory"
	resourcetypes "github.com/projecteru2/core/resource/types"
	"github.com/projecteru2/core/store"
	"github.com/projecteru2/core/strategy"
	"github.com/projecteru2/core/types"
	"github.com/projecteru2/core/utils"
)

type nodeSpec struct {
	Name   string            `json:"name"`
	Pod    string            `json:"pod"`
	Labels map[string]string `json:"labels,omitempty"`
	Test   bool              `json:"test"`
	Bypass bool              `json:"bypass"`
	Status bool              `json:"status"`
}

type filterSpec struct {
	Pod      string            `json:"pod"`
	Includes []string          `json:"includes,omitempty"`
	Excludes []string          `json:"excludes,omitempty"`
	Labels   map[string]string `json:"labels,omitempty"`
	All      bool              `json:"all"`
}

type caseSpec struct {
	Pods  []string   `json:"pods"`
	Nodes []nodeSpec `json:"nodes"`
	F     filterSpec `json:"filter"`
}

type obsNode struct {
	Name      string `json:"name"`
	Available bool   `json:"available"`
}

type env struct {
	name string
	c    *calcium.Calcium
	st   store.Store
}

func newEnv(t *testing.T, backend string) *env {
	ctx := context.Background()
	cfg := types.Config{
		WALFile:             filepath.Join(t.TempDir(), "wal-"+backend),
		HAKeepaliveInterval: 16 * time.Second,
		LockTimeout:         5 * time.Second,
		GlobalTimeout:       10 * time.Second,
		ConnectionTimeout:   2 * time.Second,
		MaxConcurrency:      32,
		Etcd:                types.EtcdConfig{Prefix: "/c21"},
	}
	if backend == "redis" {
		mr, err := miniredis.Run()
		if err != nil {
			t.Fatal(err)
		}
		t.Cleanup(mr.Close)
		cfg.Store = types.Redis
		cfg.Redis = types.RedisConfig{Addr: mr.Addr(), LockPrefix: "/lock"}
	}
	enginefactory.InitEngineCache(ctx, cfg, nil)
	c, err := calcium.New(ctx, cfg, t)
	if err != nil {
		t.Fatal(err)
	}
	return &env{name: backend, c: c, st: c.VerifC21Store()}
}

// cstr emits a Go string as a Coq string: a literal when it is printable ASCII
// (cheap to parse), the byte-list form of vh.Str otherwise.
func cstr(s string) string {
	for i := 0; i < len(s); i++ {
		if s[i] < 0x20 || s[i] > 0x7e || s[i] == '"' {
			return vh.Str(s)
		}
	}
	return "\"" + s + "\"%string"
}

func cstrList(vs []string) string {
	s := make([]string, len(vs))
	for i, v := range vs {
		s[i] = cstr(v)
	}
	return vh.List(s)
}

func labelsCoq(m map[string]string) string {
	items := []string{}
	for _, k := range vh.SortedKeys(m) {
		items = append(items, vh.Pair(cstr(k), cstr(m[k])))
	}
	return vh.List(items)
}

func (cs *caseSpec) storeCoq() string {
	ns := make([]string, len(cs.Nodes))
	for i, n := range cs.Nodes {
		ns[i] = fmt.Sprintf("(mkNode %s %s %s %s %s %s)", cstr(n.Name), cstr(n.Pod), labelsCoq(n.Labels),
			vh.Bool(n.Test), vh.Bool(n.Bypass), vh.Bool(n.Status))
	}
	pods := append([]string{}, cs.Pods...)
	sort.Strings(pods) // GetAllPods order on etcd; the result does not depend on it (theorem filter_nodes_pods_perm)
	return fmt.Sprintf("(mkStore %s %s)", cstrList(pods), vh.List(ns))
}

func (cs *caseSpec) filterCoq() string {
	f := cs.F
	return fmt.Sprintf("(mkFilter %s %s %s %s %s)", cstr(f.Pod), cstrList(f.Includes), cstrList(f.Excludes), labelsCoq(f.Labels), vh.Bool(f.All))
}

// runCase builds the store content, runs the two observations, and cleans up.
var phase = map[string]time.Duration{}

func (e *env) runCase(cs *caseSpec) (obs []obsNode, obsErr error, locked []string, lockedErr error, listed []string, listedErr error, infra error) {
	t0 := time.Now()
	ctx, cancel := context.WithTimeout(context.Background(), 20*time.Second)
	defer cancel()
	var added []*types.Node
	defer func() {
		for _, n := range added {
			_ = e.st.SetNodeStatus(ctx, n, -1)
			if err := e.st.RemoveNode(ctx, n); err != nil && infra == nil {
				infra = err
			}
		}
		for _, p := range cs.Pods {
			if err := e.st.RemovePod(ctx, p); err != nil && infra == nil {
				infra = err
			}
		}
		if pods, err := e.st.GetAllPods(ctx); (err != nil || len(pods) != 0) && infra == nil {
			infra = fmt.Errorf("store not clean after case: %v %v", pods, err)
		}
	}()
	for _, p := range cs.Pods {
		if _, err := e.st.AddPod(ctx, p, ""); err != nil {
			return nil, nil, nil, nil, nil, nil, err
		}
	}
	for _, n := range cs.Nodes {
		ep := "verif-none://" + n.Name // unknown engine prefix: not a test node, no engine client
		if n.Test {
			ep = "mock://" + n.Name
		}
		node, err := e.st.AddNode(ctx, &types.AddNodeOptions{Nodename: n.Name, Endpoint: ep, Podname: n.Pod, Labels: n.Labels})
		if err != nil {
			return nil, nil, nil, nil, nil, nil, err
		}
		added = append(added, node)
		if n.Bypass {
			node.Bypass = true
			if err := e.st.UpdateNodes(ctx, node); err != nil {
				return nil, nil, nil, nil, nil, nil, err
			}
		}
		if n.Status {
			if err := e.st.SetNodeStatus(ctx, node, 600); err != nil {
				return nil, nil, nil, nil, nil, nil, err
			}
		}
	}
	nf := func() *types.NodeFilter {
		return &types.NodeFilter{Podname: cs.F.Pod, Includes: append([]string(nil), cs.F.Includes...),
			Excludes: append([]string(nil), cs.F.Excludes...), Labels: cs.F.Labels, All: cs.F.All}
	}
	phase[e.name+"/setup"] += time.Since(t0)
	t1 := time.Now()
	ns, err := e.c.VerifC21FilterNodes(ctx, nf())
	phase[e.name+"/filter"] += time.Since(t1)
	t2 := time.Now()
	defer func() { phase[e.name+"/locked"] += time.Since(t2) }()
	if err != nil {
		obsErr = err
	} else {
		obs = []obsNode{}
		for _, n := range ns {
			obs = append(obs, obsNode{n.Name, n.Available})
		}
	}
	// public API: pod-based listing straight from the store (sees down nodes too)
	if ch, err := e.c.ListPodNodes(ctx, &types.ListNodesOptions{Podname: cs.F.Pod, Labels: cs.F.Labels, All: cs.F.All}); err != nil {
		listedErr = err
	} else {
		listed = []string{}
		for n := range ch {
			listed = append(listed, n.Name)
		}
		sort.Strings(listed)
	}
	locked, lockedErr = e.c.VerifC21LockedNodes(ctx, nf())
	sort.Strings(locked)
	if locked == nil {
		locked = []string{}
	}
	return
}

// runPublic builds the case through Calcium's public API only and observes CalculateCapacity.
func (e *env) runPublic(cs *caseSpec) (names []string, callErr error, infra error) {
	ctx, cancel := context.WithTimeout(context.Background(), 30*time.Second)
	defer cancel()
	var added []string
	defer func() {
		for _, n := range added {
			if err := e.c.RemoveNode(ctx, n); err != nil && infra == nil {
				infra = err
			}
		}
		for _, p := range cs.Pods {
			if err := e.c.RemovePod(ctx, p); err != nil && infra == nil {
				infra = err
			}
		}
	}()
	for _, p := range cs.Pods {
		if _, err := e.c.AddPod(ctx, p, ""); err != nil {
			return nil, nil, err
		}
	}
	for _, n := range cs.Nodes {
		_, err := e.c.AddNode(ctx, &types.AddNodeOptions{Nodename: n.Name, Endpoint: "mock://" + n.Name, Podname: n.Pod, Labels: n.Labels,
			Resources: resourcetypes.Resources{"cpumem": resourcetypes.RawParams{"cpu": 8, "memory": int64(1 << 30)}}})
		if err != nil {
			return nil, nil, err
		}
		added = append(added, n.Name)
		if n.Bypass {
			if _, err := e.c.SetNode(ctx, &types.SetNodeOptions{Nodename: n.Name, Bypass: types.TriTrue}); err != nil {
				return nil, nil, err
			}
		}
	}
	msg, err := e.c.CalculateCapacity(ctx, &types.DeployOptions{Name: "app", Entrypoint: &types.Entrypoint{Name: "e"}, Podname: cs.F.Pod, Image: "img", Count: 1,
		DeployStrategy: strategy.Dummy,
		Resources: resourcetypes.Resources{"cpumem": resourcetypes.RawParams{"cpu-request": 0.1, "cpu-limit": 0.1, "memory-request": int64(1 << 20), "memory-limit": int64(1 << 20)}},
		NodeFilter: &types.NodeFilter{Podname: cs.F.Pod, Includes: append([]string(nil), cs.F.Includes...), Excludes: append([]string(nil), cs.F.Excludes...), Labels: cs.F.Labels, All: cs.F.All}})
	if err != nil {
		return nil, err, nil
	}
	for n := range msg.NodeCapacities {
		names = append(names, n)
	}
	sort.Strings(names)
	return names, nil, nil
}

var nameAlphabet = []string{"a", "b", "c", "aa", "ab", "b0", "B", "n-1", "n-10", "n-2", "z.y", "0", "node"}
var podAlphabet = []string{"p1", "p2", "pod", "P"}
var labelKeys = []string{"zone", "disk"}
var labelVals = []string{"x", "y", ""}

func corpus() []caseSpec {
	up := func(name, pod string) nodeSpec { return nodeSpec{Name: name, Pod: pod, Test: true} }
	three := []nodeSpec{up("a", "p1"), up("b", "p1"), up("c", "p1")}
	mixed := []nodeSpec{
		up("a", "p1"),
		{Name: "b", Pod: "p1", Test: true, Bypass: true},
		{Name: "c", Pod: "p1", Test: false, Status: false},
		{Name: "d", Pod: "p1", Test: false, Status: true},
		{Name: "e", Pod: "p1", Test: false, Status: true, Bypass: true},
		{Name: "f", Pod: "p2", Test: true, Labels: map[string]string{"zone": "x"}},
		{Name: "g", Pod: "p2", Test: true, Labels: map[string]string{"zone": "y", "disk": "x"}},
	}
	return []caseSpec{
		// the witnesses of the repaired defect
		{Pods: []string{"p1"}, Nodes: three, F: filterSpec{Includes: []string{"a", "a", "b"}}},
		{Pods: []string{"p1"}, Nodes: three, F: filterSpec{Includes: []string{"b", "a", "a", "c"}}},
		{Pods: []string{"p1"}, Nodes: three, F: filterSpec{Includes: []string{"c", "b", "a"}}},
		{Pods: []string{"p1"}, Nodes: three, F: filterSpec{Includes: []string{"c", "c", "c"}}},
		{Pods: []string{"p1"}, Nodes: three, F: filterSpec{Includes: []string{"a", "nope"}}},
		{Pods: []string{"p1"}, Nodes: three, F: filterSpec{Pod: "p1", Includes: []string{"a"}, Excludes: []string{"a"}}},
		{Pods: []string{"p1"}, Nodes: three, F: filterSpec{Pod: "p1"}},
		{Pods: []string{"p1"}, Nodes: three, F: filterSpec{Pod: "p1", Excludes: []string{"b", "zz"}}},
		{Pods: []string{"p1"}, Nodes: three, F: filterSpec{Pod: "p1", Excludes: []string{"a", "b", "c"}}},
		{Pods: []string{"p1"}, Nodes: three, F: filterSpec{Pod: "nopod"}},
		{Pods: []string{"p1"}, Nodes: nil, F: filterSpec{Pod: "p1"}},
		{Pods: []string{"p1", "p2"}, Nodes: mixed, F: filterSpec{Pod: "p1"}},
		{Pods: []string{"p1", "p2"}, Nodes: mixed, F: filterSpec{Pod: "p1", All: true}},
		{Pods: []string{"p1", "p2"}, Nodes: mixed, F: filterSpec{}},
		{Pods: []string{"p1", "p2"}, Nodes: mixed, F: filterSpec{All: true}},
		{Pods: []string{"p1", "p2"}, Nodes: mixed, F: filterSpec{All: true, Excludes: []string{"c", "f"}}},
		{Pods: []string{"p1", "p2"}, Nodes: mixed, F: filterSpec{Pod: "p2", Labels: map[string]string{"zone": "x"}}},
		{Pods: []string{"p1", "p2"}, Nodes: mixed, F: filterSpec{Labels: map[string]string{"zone": "y", "disk": "x"}}},
		{Pods: []string{"p1", "p2"}, Nodes: mixed, F: filterSpec{Labels: map[string]string{"zone": "y", "disk": "y"}}},
		{Pods: []string{"p1", "p2"}, Nodes: mixed, F: filterSpec{Includes: []string{"g", "c", "b", "e", "c"}}},
		{Pods: []string{"p1", "p2"}, Nodes: mixed, F: filterSpec{Pod: "p2", Includes: []string{"b", "c"}, Labels: map[string]string{"zone": "x"}}},
	}
}

func randomCase(r *vh.Run) caseSpec {
	rng := r.Rng
	cs := caseSpec{}
	np := 1 + rng.Intn(3)
	perm := rng.Perm(len(podAlphabet))
	for i := 0; i < np; i++ {
		cs.Pods = append(cs.Pods, podAlphabet[perm[i]])
	}
	nn := rng.Intn(8)
	nperm := rng.Perm(len(nameAlphabet))
	for i := 0; i < nn; i++ {
		n := nodeSpec{Name: nameAlphabet[nperm[i]], Pod: cs.Pods[rng.Intn(np)]}
		n.Test = rng.Intn(2) == 0
		n.Bypass = rng.Intn(4) == 0
		n.Status = rng.Intn(2) == 0
		if rng.Intn(2) == 0 {
			n.Labels = map[string]string{}
			for _, k := range labelKeys {
				if rng.Intn(2) == 0 {
					n.Labels[k] = labelVals[rng.Intn(len(labelVals))]
				}
			}
		}
		cs.Nodes = append(cs.Nodes, n)
	}
	pick := func() string {
		if nn > 0 && rng.Intn(10) != 0 {
			return cs.Nodes[rng.Intn(nn)].Name
		}
		return nameAlphabet[rng.Intn(len(nameAlphabet))]
	}
	switch rng.Intn(3) {
	case 0: // include list, repeats likely
		k := 1 + rng.Intn(6)
		if nn == 0 && rng.Intn(3) != 0 {
			k = 0
		}
		for i := 0; i < k; i++ {
			if nn > 0 && rng.Intn(12) != 0 {
				cs.F.Includes = append(cs.F.Includes, cs.Nodes[rng.Intn(nn)].Name)
			} else {
				cs.F.Includes = append(cs.F.Includes, pick())
			}
		}
	}
	if rng.Intn(3) == 0 {
		k := 1 + rng.Intn(3)
		for i := 0; i < k; i++ {
			cs.F.Excludes = append(cs.F.Excludes, pick())
		}
	}
	switch rng.Intn(4) {
	case 0:
	case 1:
		cs.F.Pod = podAlphabet[rng.Intn(len(podAlphabet))]
	default:
		cs.F.Pod = cs.Pods[rng.Intn(np)]
	}
	if rng.Intn(3) == 0 {
		cs.F.Labels = map[string]string{}
		for _, k := range labelKeys {
			if rng.Intn(2) == 0 {
				cs.F.Labels[k] = labelVals[rng.Intn(len(labelVals))]
			}
		}
	}
	cs.F.All = rng.Intn(3) == 0
	return cs
}

func hasDup(l []string) bool {
	seen := map[string]bool{}
	for _, x := range l {
		if seen[x] {
			return true
		}
		seen[x] = true
	}
	return false
}

func TestC21(t *testing.T) {
	r := vh.New(t, "C21", "select")
	r.Coq("From Verif Require Import Select.Model.", "Model.case", "Model.agree", "Model.ok")
	envs := []*env{newEnv(t, "etcd"), newEnv(t, "redis")}
	emit := func(e *env, cs caseSpec) {
		obs, obsErr, locked, lockedErr, listed, listedErr, infra := e.runCase(&cs)
		if infra != nil {
			t.Fatalf("harness infrastructure failure on %s: %v (case %+v)", e.name, infra, cs)
		}
		obsT, lockedT := "None", "None"
		if obsErr == nil {
			items := make([]string, len(obs))
			for i, o := range obs {
				items[i] = vh.Pair(cstr(o.Name), vh.Bool(o.Available))
			}
			obsT = vh.Some(vh.List(items))
		}
		if lockedErr == nil {
			lockedT = vh.Some(cstrList(locked))
		}
		listedT := "None"
		if listedErr == nil {
			listedT = vh.Some(cstrList(listed))
		}
		term := fmt.Sprintf("(mkCase %s %s %s %s %s)", cs.storeCoq(), cs.filterCoq(), obsT, lockedT, listedT)
		desc := map[string]any{"backend": e.name, "case": cs, "filterNodes": obs, "filterNodes_err": errStr(obsErr),
			"locked_nodes": locked, "locked_err": errStr(lockedErr), "ListPodNodes": listed, "ListPodNodes_err": errStr(listedErr)}
		mode := "pod"
		if len(cs.F.Includes) > 0 {
			mode = "includes"
		}
		r.Count("backend=" + e.name)
		r.Count("mode=" + mode)
		r.Count(fmt.Sprintf("error=%v", obsErr != nil))
		r.Count(fmt.Sprintf("dup_includes=%v", hasDup(cs.F.Includes)))
		r.Count(fmt.Sprintf("all=%v", cs.F.All))
		r.Count(fmt.Sprintf("selected=%d", imin(len(obs), 5)))
		down := 0
		for _, n := range cs.Nodes {
			if n.Bypass || (n.Test && false) || (!n.Test && !n.Status) {
				down++
			}
		}
		r.Count(fmt.Sprintf("down_nodes=%d", imin(down, 4)))
		r.Add(term, desc, map[string]any{"backend": e.name, "mode": mode, "dup_includes": hasDup(cs.F.Includes)},
			obsErr == nil && len(obs) > 0)
	}
	for _, e := range envs {
		for _, cs := range corpus() {
			emit(e, cs)
		}
	}
	n := r.N(180, 8000)
	for i := 0; i < n; i++ {
		cs := randomCase(r)
		emit(envs[i%len(envs)], cs)
	}
	t.Logf("phases: %v", phase)
	r.Finish("corpus (witnesses of the repaired duplicate-include defect, down/bypassed/labelled nodes, empty and unknown pods) on both backends, then random stores (1-3 pods, 0-7 nodes: test/non-test, bypassed, with/without status key, labels) and filters (include lists with repeats and unknown names, excludes, labels, pod/all-pods, all flag); real Calcium.filterNodes and withNodesPodLocked over embedded etcd / miniredis; non-trivial = at least one node selected")

	// ---- end to end through the public API: Calcium.AddNode / SetNode / CalculateCapacity ----
	cp := vh.New(t, "C21", "capacity")
	cp.Coq("From Verif Require Import Select.Model.", "Model.ccase", "Model.cagree", "Model.cok")
	var pubCases []caseSpec
	for _, cs := range corpus() {
		pubCases = append(pubCases, cs)
	}
	cn := cp.N(40, 2000)
	for i := 0; i < cn; i++ {
		pubCases = append(pubCases, randomCase(cp))
	}
	for i, cs := range pubCases {
		for j := range cs.Nodes { // only what the public API can create: engine-backed test nodes
			cs.Nodes[j].Test, cs.Nodes[j].Status = true, false
		}
		e := envs[i%len(envs)]
		names, err, infra := e.runPublic(&cs)
		if infra != nil {
			t.Fatalf("harness infrastructure failure on %s (public): %v (case %+v)", e.name, infra, cs)
		}
		obsT := "None"
		if err == nil {
			obsT = vh.Some(cstrList(names))
		}
		cp.Count("backend=" + e.name)
		cp.Count(fmt.Sprintf("error=%v", err != nil))
		cp.Count(fmt.Sprintf("dup_includes=%v", hasDup(cs.F.Includes)))
		cp.Count(fmt.Sprintf("selected=%d", imin(len(names), 5)))
		cp.Add(fmt.Sprintf("(mkC %s %s %s)", cs.storeCoq(), cs.filterCoq(), obsT),
			map[string]any{"backend": e.name, "case": cs, "capacity_nodes": names, "error": errStr(err)},
			map[string]any{"backend": e.name, "dup_includes": hasDup(cs.F.Includes)}, err == nil && len(names) > 0)
	}
	cp.Finish("the select corpus and random cases restricted to what the public API can create (mock-engine nodes added with Calcium.AddNode incl. cpumem resources, bypass set with Calcium.SetNode); observed: the node set of Calcium.CalculateCapacity (DUMMY strategy); non-trivial = at least one node")

	// ---- utils.Unique on arbitrary slices ----
	u := vh.New(t, "C21", "unique")
	u.Coq("From Verif Require Import Select.Model.", "Model.ucase", "Model.uagree", "Model.uok")
	ucorpus := [][]string{{}, {"a"}, {"a", "a"}, {"a", "a", "b"}, {"b", "a", "a", "c"}, {"", "", "a"}, {"", "a", ""}, {"b", "b", "a", "a", "c", "c"}, {"a", "b", "c"}, {"c", "b", "a", "c", "b", "a", "a"}}
	un := u.N(300, 5000)
	for i := 0; i < un+len(ucorpus); i++ {
		var in []string
		if i < len(ucorpus) {
			in = ucorpus[i]
		} else {
			k := u.Rng.Intn(9)
			alpha := append([]string{""}, nameAlphabet[:2+u.Rng.Intn(6)]...)
			for j := 0; j < k; j++ {
				in = append(in, alpha[u.Rng.Intn(len(alpha))])
			}
		}
		s := append([]string{}, in...)
		p := utils.Unique(s, func(i int) string { return s[i] })
		term := fmt.Sprintf("(mkU %s %s %d)", cstrList(in), cstrList(s), p)
		u.Count(fmt.Sprintf("len=%d", len(in)))
		u.Count(fmt.Sprintf("dups=%v", hasDup(in)))
		u.Add(term, map[string]any{"in": in, "out": s, "p": p}, map[string]any{"dups": hasDup(in)}, hasDup(in))
	}
	u.Finish("utils.Unique on string slices of length 0-8 over a small alphabet (incl. the empty string); whole resulting slice and index compared; non-trivial = input has repeats")
}

func imin(a, b int) int {
	if a < b {
		return a
	}
	return b
}

func errStr(err error) string {
	if err == nil {
		return ""
	}
	s := err.Error()
	if i := strings.Index(s, "\n"); i >= 0 {
		s = s[:i]
	}
	return s
}
