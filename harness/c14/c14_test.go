// Package c14: correspondence harness for C14 (a crash during deployment is
// repaired by recovery).
//
// A real Calcium (package cw: embedded etcd, real cpumem plugin, bbolt WAL, fake
// engine) starts a deployment; the interception layer blocks the k-th
// intercepted call and every later one forever (the crash), the etcd leases of
// the dead instance are revoked (its locks vanish as after a process death),
// a fresh Calcium is built on the same store and WAL file and DisasterRecover
// runs.  The crash configuration (how far every node / instance got) is read
// off the call log; Coq (Calcium/Recover.v) checks that it obeys program order,
// recomputes the state right after the crash and after recovery, and evaluates
// the property on the implementation's state after recovery.
package c14

import (
	"fmt"
	"sort"
	"strconv"
	"strings"
	"testing"
	"time"

	"verifharness/cw"
	"verifharness/vh"

	"github.com/projecteru2/core/types"
)

const (
	app   = "app"
	entry = "web"
	mem   = int64(1 << 20)
)

func deployOpts(count int, strategy string, nf *types.NodeFilter) *types.DeployOptions {
	return &types.DeployOptions{
		Name: app, Entrypoint: &types.Entrypoint{Name: entry}, Podname: "p", Image: "img",
		Count: count, DeployStrategy: strategy, NodeFilter: nf,
		Resources: cw.CPUMem(0.1, mem),
	}
}

type obsInst struct {
	ID       string `json:"id"`
	Recorded bool   `json:"recorded"`
	Cont     string `json:"container"` // "", Created, Running, Stopped
}
type obsNode struct {
	Name   string    `json:"name"`
	Usage  int64     `json:"usage"`
	Sum    int64     `json:"sum"`
	Marker *int      `json:"marker"`
	Insts  []obsInst `json:"instances"`
}

func contTerm(s string) string {
	switch s {
	case "":
		return "None"
	case cw.Running:
		return "(Some true)"
	}
	return "(Some false)"
}
func (n obsNode) term() string {
	is := make([]string, len(n.Insts))
	for i, x := range n.Insts {
		is[i] = fmt.Sprintf("(mkOi %s %s)", vh.Bool(x.Recorded), contTerm(x.Cont))
	}
	m := "None"
	if n.Marker != nil {
		m = vh.Some(vh.ZI(*n.Marker))
	}
	return fmt.Sprintf("(mkOn %s %s %s %s)", vh.Z(n.Usage), vh.Z(n.Sum), m, vh.List(is))
}

// observe the nodes: usage / recorded sum in instances, marker of ident, and the
// state of the given instances (container ids per node; "" = an instance that
// never got a container)
func observe(w *cw.World, nodes []string, ident string, ids map[string][]string) []obsNode {
	s := w.Snapshot()
	rec := map[string]bool{}
	for _, wl := range s.Workloads {
		rec[wl.ID] = true
	}
	cont := map[string]string{}
	for _, c := range s.Containers {
		cont[c.ID] = c.State
	}
	out := []obsNode{}
	for _, n := range nodes {
		on := obsNode{Name: n}
		for _, ns := range s.Nodes {
			if ns.Name == n {
				on.Usage, on.Sum = ns.UseMem/mem, ns.SumMem/mem
			}
		}
		for _, kv := range s.Processing {
			parts := strings.Split(strings.TrimPrefix(kv.Key, "/"), "/")
			if len(parts) == 5 && parts[3] == n && parts[4] == ident {
				v, _ := strconv.Atoi(kv.Value)
				on.Marker = &v
			}
		}
		for _, id := range ids[n] {
			if id == "" {
				on.Insts = append(on.Insts, obsInst{})
			} else {
				on.Insts = append(on.Insts, obsInst{ID: id, Recorded: rec[id], Cont: cont[id]})
			}
		}
		out = append(out, on)
	}
	return out
}

type nconf struct {
	Alloc, ProcLogged, Marker, ProcCommitted, MarkerDeleted bool
	K                                                       int
	Stages                                                  []int
}

func (c nconf) term() string {
	st := make([]string, len(c.Stages))
	for i, s := range c.Stages {
		st[i] = fmt.Sprintf("S%d", s)
	}
	return fmt.Sprintf("(mkNc %s %s %s %s %s %s)", vh.Bool(c.Alloc), vh.Bool(c.ProcLogged), vh.Bool(c.Marker), vh.List(st), vh.Bool(c.ProcCommitted), vh.Bool(c.MarkerDeleted))
}

// revoke every lease of the dead instance (locks, like after a process death) and re-mark the nodes alive
func killLeases(w *cw.World, nodes []string) {
	resp, err := w.Etcd.Leases(w.Ctx)
	if err == nil {
		for _, l := range resp.Leases {
			_, _ = w.Etcd.Revoke(w.Ctx, l.ID)
		}
	}
	for _, n := range nodes {
		if node, err := w.RawStore.GetNode(w.Ctx, n); err == nil {
			_ = w.RawStore.SetNodeStatus(w.Ctx, node, 3600)
		}
	}
}

type scenario struct {
	Nodes    int    `json:"nodes"`
	Prior    int    `json:"prior"` // instances deployed (completely) before
	Count    int    `json:"count"`
	Strategy string `json:"strategy"`
}

// runCase: returns false when the crash point lies beyond the end of the deployment
func runCase(t *testing.T, r *vh.Run, sc scenario, k int, tags map[string]any, addr ...*cw.Addr) (emitted bool, total []int) {
	w := cw.New(t, cw.Options{NCPU: 8, Mem: 1 << 30})
	defer w.Close()
	if err := w.AddPod("p"); err != nil {
		t.Fatalf("addpod: %v", err)
	}
	nodes := []string{}
	for i := 0; i < sc.Nodes; i++ {
		n := fmt.Sprintf("n%d", i+1)
		nodes = append(nodes, n)
		if err := w.AddNode(n, "p", 8, 1<<30); err != nil {
			t.Fatalf("addnode: %v", err)
		}
	}
	nf := &types.NodeFilter{Podname: "p"}
	if sc.Prior > 0 {
		w.Hub.SetOpNorm(1, true)
		ch, err := w.C.CreateWorkload(w.Ctx, deployOpts(sc.Prior, "AUTO", nf))
		if err != nil {
			t.Fatalf("prior create: %v", err)
		}
		for m := range ch {
			if m.Error != nil {
				t.Fatalf("prior create: %v", m.Error)
			}
		}
		w.Quiesce()
	}
	before := observe(w, nodes, "", nil)

	w.IC.Reset()
	if len(addr) > 0 {
		w.IC.SetCrash(addr[0])
	} else {
		w.IC.SetCrashAtSeq(k)
	}
	w.Hub.SetOpNorm(2, true)
	ch, err := w.C.CreateWorkload(w.Ctx, deployOpts(sc.Count, sc.Strategy, nf))
	if err != nil {
		t.Fatalf("create: %v", err)
	}
	closed := false
	deadline := time.After(20 * time.Second)
loop:
	for {
		select {
		case _, ok := <-ch:
			if !ok {
				closed = true
				break loop
			}
		case <-deadline:
			t.Fatalf("C14: create neither finished nor crashed")
		default:
			if w.IC.Crashed() {
				// let the other goroutines run into the wall
				w.Quiesce()
				break loop
			}
			time.Sleep(time.Millisecond)
		}
	}
	w.Quiesce()
	log := w.IC.Log()
	total = []int{}
	for _, c := range log {
		if !c.Bg {
			total = append(total, c.Seq)
		}
	}
	if closed && !w.IC.Crashed() {
		// the deployment completed before call k: nothing to recover
		r.Count("crash_point_beyond_end")
		return false, total
	}
	// ---- crash configuration from the call log
	executed := func(c cw.Call) bool { return !c.Crashed && !c.Faulted && !c.Bg }
	ident := ""
	confs := map[string]*nconf{}
	for _, n := range nodes {
		confs[n] = &nconf{}
	}
	allocLogged, allocCommitted := false, false
	created := map[string][]string{} // node -> container ids in creation order
	stage := map[string]int{}
	for _, c := range log {
		if !executed(c) {
			continue
		}
		switch {
		case c.Party == "wal" && c.Method == "Log" && c.Target == "allocate-workload":
			allocLogged = true
		case c.Party == "wal" && c.Method == "Commit" && c.Target == "allocate-workload":
			allocCommitted = true
		case c.Party == "rmgr" && c.Method == "Alloc":
			confs[c.Target].Alloc = true
			confs[c.Target].K, _ = strconv.Atoi(c.Arg)
		case c.Party == "wal" && c.Method == "Log" && c.Target == "create-processing":
			confs[c.Node].ProcLogged = true
		case c.Party == "wal" && c.Method == "Commit" && c.Target == "create-processing":
			confs[c.Node].ProcCommitted = true
		case c.Party == "store" && c.Method == "CreateProcessing":
			confs[c.Target].Marker = true
		case c.Party == "store" && c.Method == "DeleteProcessing":
			confs[c.Target].MarkerDeleted = true
		case c.Party == "wal" && c.Method == "Log" && c.Target == "create-workload":
			stage[c.Arg] = 2
		case c.Party == "store" && c.Method == "AddWorkload":
			stage[c.Target] = 3
		case c.Party == "engine" && c.Method == "VirtualizationStart":
			stage[c.Target] = 4
		case c.Party == "engine" && c.Method == "VirtualizationInspect":
			stage[c.Target] = 5
		case c.Party == "wal" && c.Method == "Commit" && c.Target == "create-workload":
			stage[c.Arg] = 6
		}
	}
	// containers the engine created for this deployment (op 2)
	for _, c := range w.Hub.Containers() {
		if c.Op == 2 {
			created[c.Node] = append(created[c.Node], c.ID)
			if stage[c.ID] == 0 {
				stage[c.ID] = 1
			}
		}
	}
	// the marker's ident
	for _, kv := range w.Processing() {
		parts := strings.Split(strings.TrimPrefix(kv.Key, "/"), "/")
		if len(parts) == 5 {
			ident = parts[4]
		}
	}
	ids := map[string][]string{}
	for _, n := range nodes {
		c := confs[n]
		sort.Strings(created[n])
		for _, id := range created[n] {
			ids[n] = append(ids[n], id)
			c.Stages = append(c.Stages, stage[id])
		}
		for len(c.Stages) < c.K {
			ids[n] = append(ids[n], "")
			c.Stages = append(c.Stages, 0)
		}
	}
	if ident == "" {
		ident = "none"
	}
	crashed := observe(w, nodes, ident, ids)

	// ---- the process dies, a new one recovers
	killLeases(w, nodes)
	w.Restart()
	done := make(chan struct{})
	go func() { defer close(done); w.C.DisasterRecover(w.Ctx) }()
	select {
	case <-done:
	case <-time.After(60 * time.Second):
		t.Fatalf("C14: DisasterRecover did not return")
	}
	w.Quiesce()
	time.Sleep(30 * time.Millisecond)
	w.Quiesce()
	recovered := observe(w, nodes, ident, ids)

	// ---- emit
	ncs, bef, cr, rc := []string{}, []string{}, []string{}, []string{}
	window, cleaning := false, false
	maxStage, minStage := 0, 6
	for i, n := range nodes {
		c := confs[n]
		ncs = append(ncs, c.term())
		bef = append(bef, vh.Pair(vh.Z(before[i].Usage), vh.Z(before[i].Sum)))
		cr = append(cr, crashed[i].term())
		rc = append(rc, recovered[i].term())
		if c.Marker && !c.MarkerDeleted && c.ProcCommitted {
			window = true
		}
		if c.MarkerDeleted || c.ProcCommitted {
			cleaning = true
		}
		for _, s := range c.Stages {
			if s > maxStage {
				maxStage = s
			}
			if s < minStage {
				minStage = s
			}
		}
	}
	term := fmt.Sprintf("(mkCase (mkGc %s %s %s) %s %s %s)", vh.Bool(allocLogged), vh.Bool(allocCommitted), vh.List(ncs), vh.List(bef), vh.List(cr), vh.List(rc))
	phase := "cond"
	switch {
	case allocCommitted || window || cleaning:
		phase = "cleanup"
	case maxStage > 0:
		phase = "deploy"
	case !allocLogged:
		phase = "before-log"
	}
	// the crash point relative to the deferred clean-up: input-level tag for the known finding
	tg := map[string]any{"marker_leak_window": window, "phase": phase, "nodes": sc.Nodes, "count": sc.Count}
	for kk, v := range tags {
		tg[kk] = v
	}
	desc := map[string]any{"scenario": sc, "crash_at_call": k, "calls_total": len(total), "ident": ident, "alloc_logged": allocLogged, "alloc_committed": allocCommitted,
		"conf": confs, "before": before, "crashed": crashed, "recovered": recovered}
	r.Count("phase=" + phase)
	r.Count(fmt.Sprintf("nodes=%d", sc.Nodes))
	if window {
		r.Count("marker_leak_window")
	}
	r.Add(term, desc, tg, allocLogged)
	return true, total
}

func TestC14(t *testing.T) {
	r := vh.New(t, "C14", "crash")
	r.Coq("From Verif Require Import Calcium.Recover.", "Recover.case", "Recover.agree", "Recover.ok")
	r.Shard = 40
	scenarios := []scenario{
		{Nodes: 1, Prior: 0, Count: 1, Strategy: "AUTO"},
		{Nodes: 1, Prior: 1, Count: 2, Strategy: "AUTO"},
		{Nodes: 2, Prior: 1, Count: 2, Strategy: "AUTO"},
		{Nodes: 2, Prior: 0, Count: 3, Strategy: "AUTO"},
		{Nodes: 2, Prior: 2, Count: 1, Strategy: "EACH"},
		{Nodes: 1, Prior: 0, Count: 3, Strategy: "AUTO"},
	}
	// length of each scenario's call sequence (measured by a run whose crash point is never reached)
	points := make([][]int, len(scenarios))
	for i, sc := range scenarios {
		_, points[i] = runCase(t, r, sc, 1<<30, nil)
	}
	if r.Tier == "thorough" {
		// every crash point of every scenario
		for i, sc := range scenarios {
			for _, k := range points[i] {
				runCase(t, r, sc, k, nil)
			}
		}
	} else {
		// corpus: the clean-up at the end of the deployment (marker deletions, WAL commits)
		for _, a := range []*cw.Addr{
			{Method: "DeleteProcessing", Target: "*", Ord: 0}, {Method: "DeleteProcessing", Target: "*", Ord: 1},
			{Method: "Commit", Target: "create-processing", Ord: 0}, {Method: "Commit", Target: "create-processing", Ord: 1},
			{Method: "Commit", Target: "allocate-workload", Ord: 0},
		} {
			runCase(t, r, scenarios[2], -1, map[string]any{"corpus": "cleanup"}, a)
		}
		n := r.N(34, 34)
		for i := 0; i < n; i++ {
			si := r.Rng.Intn(len(scenarios))
			p := points[si]
			runCase(t, r, scenarios[si], p[r.Rng.Intn(len(p))], nil)
		}
	}
	r.Finish("one case per (scenario, crash point k): a real deployment (1-2 nodes, 1-3 instances, with or without earlier workloads) is cut at its k-th intercepted call (store, plugin, engine, WAL, lock), the dead instance's leases are revoked, a fresh Calcium on the same store and WAL file runs DisasterRecover; quick samples k, thorough enumerates every k of six scenarios; non-trivial = the allocate-workload entry was logged before the crash")
}
