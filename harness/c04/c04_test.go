// Package c04 is the shared correspondence driver of C04 (no overcommit), C05
// (exact CPU amount) and C06 (CPU planning terminates without crashing).
//
// Streams:
//
//	plans    schedule.GetCPUPlans called directly (volume)
//	deploy   Plugin.CalculateDeploy + SetNodeResourceUsage(incr) + GetNodesDeployCapacity
//	         through the public plugin API on embedded etcd (glue)
//	validate NodeResourceInfo.Validate accept/reject (the plugin's own validity check)
//
// Every call runs in its own goroutine with panic capture and a 2 s deadline; a
// panic or a timeout is an observable outcome.  Cases that may not terminate are
// run last (an abandoned goroutine keeps allocating).
package c04

import (
	"bufio"
	"bytes"
	"context"
	"encoding/json"
	"errors"
	"fmt"
	"math"
	"os"
	"os/exec"
	"sort"
	"strconv"
	"strings"
	"syscall"
	"testing"
	"time"

	"verifharness/vh"

	"github.com/mitchellh/mapstructure"
	"github.com/projecteru2/core/resource/plugins/cpumem"
	"github.com/projecteru2/core/resource/plugins/cpumem/schedule"
	ctypes "github.com/projecteru2/core/resource/plugins/cpumem/types"
	plugintypes "github.com/projecteru2/core/resource/plugins/types"
	coretypes "github.com/projecteru2/core/types"
)

const deadline = 2 * time.Second

// ---------- Coq printers ----------

// str emits plain identifiers as Coq string literals (much cheaper to elaborate
// than byte lists); anything else falls back to vh.Str.
func str(x string) string {
	for i := 0; i < len(x); i++ {
		c := x[i]
		if !(c >= '0' && c <= '9' || c >= 'a' && c <= 'z' || c >= 'A' && c <= 'Z' || c == '_' || c == '-') {
			return vh.Str(x)
		}
	}
	return "\"" + x + "\"%string"
}
func strList(xs []string) string {
	it := make([]string, len(xs))
	for i, x := range xs {
		it[i] = str(x)
	}
	return vh.List(it)
}

func zmap(m map[string]int) string {
	ks := vh.SortedKeys(m)
	it := make([]string, len(ks))
	for i, k := range ks {
		it[i] = "(kz " + str(k) + " " + vh.Z(int64(m[k])) + ")"
	}
	return vh.List(it)
}
func zmap64(m map[string]int64) string {
	ks := vh.SortedKeys(m)
	it := make([]string, len(ks))
	for i, k := range ks {
		it[i] = "(kz " + str(k) + " " + vh.Z(m[k]) + ")"
	}
	return vh.List(it)
}
func smap(m map[string]string) string {
	ks := vh.SortedKeys(m)
	it := make([]string, len(ks))
	for i, k := range ks {
		it[i] = "(ks " + str(k) + " " + str(m[k]) + ")"
	}
	return vh.List(it)
}
func coqNR(r *ctypes.NodeResource) string {
	return fmt.Sprintf("(mkNR %s %s %s %s %s)", vh.F64(r.CPU), zmap(r.CPUMap), vh.Z(r.Memory), zmap64(r.NUMAMemory), smap(r.NUMA))
}
func coqNI(n *ctypes.NodeResourceInfo) string {
	return fmt.Sprintf("(mkNI %s %s)", coqNR(n.Capacity), coqNR(n.Usage))
}
func coqReq(r *ctypes.WorkloadResourceRequest) string {
	return fmt.Sprintf("(mkReq %s %s %s %s %s %s)", vh.Bool(r.CPUBind), vh.Bool(r.KeepCPUBind), vh.F64(r.CPURequest), vh.F64(r.CPULimit), vh.Z(r.MemRequest), vh.Z(r.MemLimit))
}
func coqReason(msg string) string {
	switch {
	case strings.Contains(msg, "slice bounds out of range"):
		return "(Some RSlice)"
	case strings.Contains(msg, "index out of range"):
		return "(Some RIndex)"
	case strings.Contains(msg, "divide by zero"):
		return "(Some RDivZero)"
	}
	return "None"
}
func coqPlans(ps []*ctypes.CPUPlan) string {
	it := make([]string, len(ps))
	for i, p := range ps {
		it[i] = "(tp " + str(p.NUMANode) + " " + zmap(p.CPUMap) + ")"
	}
	return vh.List(it)
}

// ---------- running with panic capture and deadline ----------

type outcome[T any] struct {
	val      T
	panicMsg string
	timeout  bool
}

func guardedFor[T any](d time.Duration, f func() T) outcome[T] {
	ch := make(chan outcome[T], 1)
	go func() {
		defer func() {
			if r := recover(); r != nil {
				ch <- outcome[T]{panicMsg: fmt.Sprint(r)}
			}
		}()
		ch <- outcome[T]{val: f()}
	}()
	select {
	case o := <-ch:
		return o
	case <-time.After(d):
		return outcome[T]{timeout: true}
	}
}

// guarded runs f with the 2 s deadline; a timeout is confirmed by a second run
// with a 20 s deadline, so that a slow machine is not mistaken for a
// non-terminating implementation (f must be repeatable).
func guarded[T any](f func() T) outcome[T] {
	o := guardedFor(deadline, f)
	if o.timeout {
		o = guardedFor(10*deadline, f)
	}
	return o
}

func copyNR(r *ctypes.NodeResource) *ctypes.NodeResource { return r.DeepCopy() }
func copyNI(n *ctypes.NodeResourceInfo) *ctypes.NodeResourceInfo {
	return &ctypes.NodeResourceInfo{Capacity: copyNR(n.Capacity), Usage: copyNR(n.Usage)}
}

// numaOrder recovers the order in which GetCPUPlans visited the NUMA nodes:
// tags in order of first appearance, then the unobservable rest (sorted).
func numaOrder(info *ctypes.NodeResourceInfo, tags []string) []string {
	all := map[string]bool{}
	for _, n := range info.Capacity.NUMA {
		all[n] = true
	}
	seen := map[string]bool{}
	var order []string
	for _, t := range tags {
		if t != "" && !seen[t] && all[t] {
			seen[t] = true
			order = append(order, t)
		}
	}
	var rest []string
	for n := range all {
		if !seen[n] {
			rest = append(rest, n)
		}
	}
	sort.Strings(rest)
	return append(order, rest...)
}

// ---------- generators ----------

type gen struct {
	r *vh.Run
}

func (g gen) intn(n int) int { return g.r.Rng.Intn(n) }
func (g gen) pick(xs ...int) int {
	return xs[g.intn(len(xs))]
}
func (g gen) chance(p float64) bool { return g.r.Rng.Float64() < p }

type nodeOpts struct {
	maxCores  int
	malformed bool
}

func (g gen) node(base int, o nodeOpts) *ctypes.NodeResourceInfo {
	b := base
	if b <= 0 {
		b = 100
	}
	n := 1 + g.intn(o.maxCores)
	if g.chance(0.5) && n > 6 {
		n = 1 + g.intn(6)
	}
	capm, usem := ctypes.CPUMap{}, ctypes.CPUMap{}
	mode := g.intn(100)
	usedPieces := 0
	for i := 0; i < n; i++ {
		id := strconv.Itoa(i)
		var c int
		switch {
		case mode < 60:
			c = b
		case mode < 80:
			c = b * (1 + g.intn(3))
		default:
			c = 1 + g.intn(3*b)
		}
		capm[id] = c
		u := 0
		switch x := g.intn(100); {
		case x < 55:
			u = 0
		case x < 65:
			u = c
		case x < 75 && c >= b:
			u = b * g.intn(c/b+1)
		default:
			u = g.intn(c + 1)
			if b >= 10 && g.chance(0.6) {
				u = u / (b / 10) * (b / 10)
			}
		}
		if g.chance(0.85) || u > 0 {
			usem[id] = u
		}
		usedPieces += u
	}
	mem := int64(g.pick(0, 1000, 1000, 4096, 8000, 1<<30))
	var umem int64
	if mem > 0 {
		switch g.intn(6) {
		case 0, 1:
			umem = 0
		case 2:
			umem = mem - int64(g.intn(int(min64(mem, 400))+1))
		default:
			umem = int64(g.r.Rng.Int63n(mem/2 + 1))
		}
	}
	capR := &ctypes.NodeResource{CPU: float64(n), CPUMap: capm, Memory: mem, NUMAMemory: ctypes.NUMAMemory{}, NUMA: ctypes.NUMA{}}
	useR := &ctypes.NodeResource{CPU: math.Round(float64(usedPieces)/float64(b)*100) / 100, CPUMap: usem, Memory: umem, NUMAMemory: ctypes.NUMAMemory{}, NUMA: ctypes.NUMA{}}
	if g.chance(0.45) {
		nn := 1 + g.intn(3)
		ids := []string{"0", "1", "2"}
		if g.chance(0.2) {
			ids = []string{"n1", "n0", "a"}
		}
		rr := g.chance(0.5)
		for i := 0; i < n; i++ {
			k := i % nn
			if !rr {
				k = i * nn / n
			}
			capR.NUMA[strconv.Itoa(i)] = ids[k]
		}
		for k := 0; k < nn; k++ {
			var nm int64
			switch g.intn(4) {
			case 0:
				nm = mem / int64(nn)
			case 1:
				nm = mem
			case 2:
				nm = int64(g.intn(int(min64(mem, 1<<20)) + 1))
			default:
				nm = mem/int64(nn) + int64(g.intn(100))
			}
			capR.NUMAMemory[ids[k]] = nm
			if g.chance(0.7) {
				useR.NUMAMemory[ids[k]] = int64(g.r.Rng.Int63n(nm + 1))
				if g.chance(0.4) {
					useR.NUMAMemory[ids[k]] = 0
				}
			}
		}
		if g.chance(0.1) { // a NUMA entry for a core the node does not have
			capR.NUMA["99"] = ids[0]
		}
	}
	if o.malformed {
		switch g.intn(9) {
		case 0:
			useR.CPUMap[strconv.Itoa(g.intn(n))] = capm[strconv.Itoa(g.intn(n))] + 1 + g.intn(50)
		case 1:
			useR.CPUMap["77"] = 1
		case 2:
			capR.CPUMap[strconv.Itoa(g.intn(n))] = -5
		case 3:
			if len(capR.NUMA) > 0 {
				delete(capR.NUMA, strconv.Itoa(g.intn(n)))
			}
		case 4:
			if ks := vh.SortedKeys(capR.NUMAMemory); len(ks) > 0 {
				delete(capR.NUMAMemory, ks[g.intn(len(ks))])
			}
		case 5:
			if ks := vh.SortedKeys(capR.NUMAMemory); len(ks) > 0 {
				k := ks[g.intn(len(ks))]
				useR.NUMAMemory[k] = capR.NUMAMemory[k] + 1 + int64(g.intn(10))
			}
		case 6:
			useR.Memory = mem + 1 + int64(g.intn(500))
		case 7:
			useR.CPUMap[strconv.Itoa(g.intn(n))] = -(1 + g.intn(b))
		case 8:
			useR.NUMAMemory["zz"] = 5
			if len(capR.NUMA) > 0 {
				capR.NUMA["98"] = "zz"
			}
		}
	}
	return &ctypes.NodeResourceInfo{Capacity: capR, Usage: useR}
}

func min64(a, b int64) int64 {
	if a < b {
		return a
	}
	return b
}

// freeCores counts the cores with at least one full share free.
func freeCores(info *ctypes.NodeResourceInfo, base int) int {
	n := 0
	for id, c := range info.Capacity.CPUMap {
		if base > 0 && c-info.Usage.CPUMap[id] >= base {
			n++
		}
	}
	return n
}

// request: returns cpu, k (decimal numerator or -1)
func (g gen) cpuRequest(base, cores int) (float64, int64) {
	b := base
	if b <= 0 {
		b = 100
	}
	var k int
	switch x := g.intn(100); {
	case x < 25: // whole cores
		k = b * (1 + g.intn(3))
		if cores >= 1 && k > cores*b {
			k = cores * b
		}
	case x < 50: // fragment only
		k = 1 + g.intn(b)
	case x < 85: // mixed
		m := cores
		if m > 3 && g.chance(0.8) {
			m = 3
		}
		if m < 0 {
			m = 0
		}
		k = 1 + g.intn(m*b+b/2+1)
	case x < 93: // classic bad decimals (scaled to the base)
		k = g.pick(29, 57, 115, 58, 113, 229, 1001, 7)
	default:
		// off the grid
		switch g.intn(4) {
		case 0:
			return g.r.Rng.Float64() * 3, -1
		case 1:
			return float64(1+g.intn(9)) / float64(b*10), -1 // below one piece
		case 2:
			return 0.5 / float64(b), -1 // exactly half a piece
		default:
			return float64(1+g.intn(300))/float64(b) + 1e-9, -1
		}
	}
	return float64(k) / float64(b), int64(k)
}

func (g gen) memRequest(info *ctypes.NodeResourceInfo) int64 {
	free := info.Capacity.Memory - info.Usage.Memory
	switch x := g.intn(100); {
	case x < 35:
		return 0
	case x < 65 && free > 8:
		return 1 + g.r.Rng.Int63n(free/8)
	case x < 85 && free > 0:
		return free/int64(1+g.intn(6)) + int64(g.intn(3))
	case x < 91 && free > 0:
		return free + int64(g.intn(2))
	}
	if free > 0 {
		return 1 + g.r.Rng.Int63n(free)
	}
	return int64(g.pick(0, 1, 10))
}

func (g gen) origin(info *ctypes.NodeResourceInfo, base int) ctypes.CPUMap {
	if !g.chance(0.25) {
		return nil
	}
	b := base
	if b <= 0 {
		b = 100
	}
	o := ctypes.CPUMap{}
	n := len(info.Capacity.CPUMap)
	for i := 0; i < 1+g.intn(3); i++ {
		id := strconv.Itoa(g.intn(n + 1))
		if g.chance(0.6) {
			o[id] = b
		} else {
			o[id] = 1 + g.intn(b)
		}
	}
	return o
}

// ---------- the driver ----------

type plugins struct {
	t   *testing.T
	ctx context.Context
	m   map[[2]int]*cpumem.Plugin
}

func (p *plugins) get(base, maxShare int) *cpumem.Plugin {
	k := [2]int{base, maxShare}
	if pl, ok := p.m[k]; ok {
		return pl
	}
	cfg := coretypes.Config{
		Etcd:      coretypes.EtcdConfig{Prefix: "/verif-c04"},
		Scheduler: coretypes.SchedulerConfig{MaxShare: maxShare, ShareBase: base},
	}
	pl, err := cpumem.NewPlugin(p.ctx, cfg, p.t)
	if err != nil {
		p.t.Fatalf("NewPlugin: %v", err)
	}
	p.m[k] = pl
	return pl
}

func nrToRaw(r *ctypes.NodeResource) map[string]any {
	return map[string]any{"cpu": r.CPU, "cpu_map": map[string]int(r.CPUMap), "memory": r.Memory,
		"numa_memory": map[string]int64(r.NUMAMemory), "numa": map[string]string(r.NUMA)}
}

type planCase struct {
	isolate bool         // run in a child process with a memory cap
	pre     *planOutcome // its outcome there
	info    *ctypes.NodeResourceInfo
	origin  ctypes.CPUMap
	base    int
	maxFrag int
	cpu     float64
	mem     int64
	k       int64
	label   string
}

type deployCase struct {
	info     *ctypes.NodeResourceInfo
	base     int
	maxShare int
	count    int
	raw      map[string]any
	k        int64
	label    string
}

func okFor(stream string) string {
	switch vh.PropEnv("C04") {
	case "C05":
		return "SchedCase." + stream + "_ok_c05"
	case "C06":
		return "SchedCase." + stream + "_ok_c06"
	}
	return "SchedCase." + stream + "_ok_c04"
}

func tagsOfNode(info *ctypes.NodeResourceInfo, base int, cpu float64, mem int64) map[string]any {
	pieces := cpu * float64(base)
	freeMem := info.Capacity.Memory - info.Usage.Memory
	var numaFree int64
	for k, v := range info.Capacity.NUMAMemory {
		numaFree += v - info.Usage.NUMAMemory[k]
	}
	return map[string]any{
		"sub_piece":          pieces < 1 && cpu > 0,
		"numa":               len(info.Capacity.NUMA) > 0,
		"numa_mem_gt_free":   len(info.Capacity.NUMA) > 0 && mem > 0 && numaFree > freeMem,
		"decimal_truncation": math.Floor(pieces) != math.Round(pieces) && cpu > 0,
	}
}

// ---------- isolated runs: huge requests ----------
//
// A request for billions of cores must simply yield no plan.  An implementation
// that sizes an allocation by the request would take the whole harness down
// (Go's "out of memory" is fatal, not a panic), so such cases run
// GetCPUPlans in a child process (this test binary, VERIF_CHILD=1) whose address
// space is capped at childMemLimit; a crash of the child is an observed outcome.

const childMemLimit = 6 << 30

type childIn struct {
	Info    *ctypes.NodeResourceInfo
	Origin  ctypes.CPUMap
	Base    int
	MaxFrag int
	CPU     float64
	Mem     int64
}
type childOut struct {
	Plans []*ctypes.CPUPlan
	Panic string
}

func runChild() {
	_ = syscall.Setrlimit(syscall.RLIMIT_AS, &syscall.Rlimit{Cur: childMemLimit, Max: childMemLimit})
	var ins []childIn
	if err := json.NewDecoder(os.Stdin).Decode(&ins); err != nil {
		fmt.Fprintln(os.Stderr, "child: bad input:", err)
		os.Exit(3)
	}
	for i, in := range ins {
		out := childOut{}
		func() {
			defer func() {
				if r := recover(); r != nil {
					out.Panic = fmt.Sprint(r)
				}
			}()
			req := &ctypes.WorkloadResourceRequest{CPUBind: true, CPURequest: in.CPU, CPULimit: in.CPU, MemRequest: in.Mem, MemLimit: in.Mem}
			out.Plans = schedule.GetCPUPlans(in.Info, in.Origin, in.Base, in.MaxFrag, req)
		}()
		b, _ := json.Marshal(out)
		fmt.Printf("CHILD-RESULT %d %s\n", i, b)
	}
	os.Exit(0)
}

var selfExe string

type planOutcome = outcome[[]*ctypes.CPUPlan]

// isolatedBatch runs the cases one after the other in a child process; when the
// child crashes or stalls at a case, that is the case's outcome and a new child
// takes over the rest.
func isolatedBatch(cs []planCase) []planOutcome {
	res := make([]planOutcome, len(cs))
	for start := 0; start < len(cs); {
		ins := make([]childIn, 0, len(cs)-start)
		for _, c := range cs[start:] {
			ins = append(ins, childIn{Info: c.info, Origin: c.origin, Base: c.base, MaxFrag: c.maxFrag, CPU: c.cpu, Mem: c.mem})
		}
		in, _ := json.Marshal(ins)
		cmd := exec.Command(selfExe, "-test.run=^TestSched$")
		cmd.Env = append(os.Environ(), "VERIF_CHILD=1")
		cmd.Stdin = bytes.NewReader(in)
		var stderr bytes.Buffer
		cmd.Stderr = &stderr
		pipe, err := cmd.StdoutPipe()
		if err != nil || cmd.Start() != nil {
			panic("harness: cannot start child process")
		}
		lines := make(chan string, 16)
		go func() {
			sc := bufio.NewScanner(pipe)
			sc.Buffer(make([]byte, 1<<20), 64<<20)
			for sc.Scan() {
				lines <- sc.Text()
			}
			close(lines)
		}()
		done := 0 // results received from this child
		stalled := false
	loop:
		for {
			wait := 10 * deadline
			if done == 0 {
				wait = 30 * deadline // start-up of the test binary
			}
			select {
			case line, ok := <-lines:
				if !ok {
					break loop
				}
				if strings.HasPrefix(line, "CHILD-RESULT ") {
					parts := strings.SplitN(line, " ", 3)
					var out childOut
					if len(parts) == 3 && json.Unmarshal([]byte(parts[2]), &out) == nil {
						res[start+done] = planOutcome{val: out.Plans, panicMsg: out.Panic}
						done++
					}
				}
			case <-time.After(wait):
				stalled = true
				_ = cmd.Process.Kill()
				break loop
			}
		}
		_ = cmd.Wait()
		if start+done >= len(cs) {
			break
		}
		// the child died or stalled while working on case start+done
		if stalled {
			res[start+done] = planOutcome{timeout: true}
		} else {
			msg := "child crashed"
			if i := strings.Index(stderr.String(), "fatal error:"); i >= 0 {
				msg = strings.SplitN(stderr.String()[i:], "\n", 2)[0]
			}
			res[start+done] = planOutcome{panicMsg: msg}
		}
		start += done + 1
	}
	return res
}

// hugeRequests: finite positive requests far beyond any node (still valid requests).
var hugeRequests = []float64{1e9, 2147483648, 2147483648.5, 4294967296, 1e10, 1e12, 3e13, 4e13, 9007199254740992, 1e15,
	9e16, 92233720368547758, 9.2e18, 1e300}

func TestSched(t *testing.T) {
	if os.Getenv("VERIF_CHILD") == "1" {
		runChild()
	}
	selfExe, _ = os.Executable()
	if os.Getenv("VERIF_OUT") == "" {
		t.Skip("VERIF_OUT not set; run through /verif/check")
	}
	runPlans(t)
	runValidate(t)
	runDeploy(t)
	runRealloc(t)
	runPdq(t)
}

func mkNode(cores int, share int, used map[string]int, mem, umem int64) *ctypes.NodeResourceInfo {
	capm, usem := ctypes.CPUMap{}, ctypes.CPUMap{}
	for i := 0; i < cores; i++ {
		capm[strconv.Itoa(i)] = share
		usem[strconv.Itoa(i)] = used[strconv.Itoa(i)]
	}
	return &ctypes.NodeResourceInfo{
		Capacity: &ctypes.NodeResource{CPU: float64(cores), CPUMap: capm, Memory: mem, NUMAMemory: ctypes.NUMAMemory{}, NUMA: ctypes.NUMA{}},
		Usage:    &ctypes.NodeResource{CPUMap: usem, Memory: umem, NUMAMemory: ctypes.NUMAMemory{}, NUMA: ctypes.NUMA{}},
	}
}

func withNUMA(n *ctypes.NodeResourceInfo, nn int, numaMem int64) *ctypes.NodeResourceInfo {
	cores := len(n.Capacity.CPUMap)
	for i := 0; i < cores; i++ {
		n.Capacity.NUMA[strconv.Itoa(i)] = strconv.Itoa(i * nn / cores)
	}
	for k := 0; k < nn; k++ {
		n.Capacity.NUMAMemory[strconv.Itoa(k)] = numaMem
		n.Usage.NUMAMemory[strconv.Itoa(k)] = 0
	}
	return n
}

func planCorpus() (first, last []planCase) {
	// witnesses of the findings and boundary cases
	first = []planCase{
		{info: mkNode(2, 100, nil, 1000, 0), base: 100, maxFrag: -1, cpu: 0.29, k: 29, label: "c05-0.29"},
		{info: mkNode(2, 100, nil, 1000, 0), base: 100, maxFrag: -1, cpu: 0.57, k: 57, label: "c05-0.57"},
		{info: mkNode(3, 100, nil, 1000, 0), base: 100, maxFrag: -1, cpu: 1.15, k: 115, label: "c05-1.15"},
		{info: mkNode(2, 100, nil, 1000, 0), base: 100, maxFrag: -1, cpu: 0.3, k: 30, label: "c05-0.30"},
		{info: mkNode(4, 100, nil, 1000, 0), base: 100, maxFrag: -1, cpu: 1.2, k: 120, label: "mixed-1.2"},
		{info: mkNode(4, 100, nil, 1000, 0), base: 100, maxFrag: -1, cpu: 2, k: 200, label: "full-2"},
		// max_share = 2 with three cores already carrying fragments: fullCores[:diff], diff < 0
		{info: mkNode(4, 100, map[string]int{"0": 50, "1": 50, "2": 50}, 1000, 0), base: 100, maxFrag: 2, cpu: 0.3, k: 30, label: "c06-diff-negative"},
		{info: mkNode(4, 100, map[string]int{"0": 50, "1": 50, "2": 50}, 1000, 0), base: 100, maxFrag: 1, cpu: 0.5, k: 50, label: "c06-diff-negative-2"},
		// NUMA plans ignore total free memory: 1000 memory, 800 used, NUMA 500+500 untouched
		{info: withNUMA(mkNode(4, 100, nil, 1000, 800), 2, 500), base: 100, maxFrag: -1, cpu: 1, mem: 100, k: 100, label: "c04-numa-total-memory"},
		// NUMA memory 100+100 on a 100-byte node
		{info: withNUMA(mkNode(4, 100, nil, 100, 0), 2, 100), base: 100, maxFrag: -1, cpu: 1, mem: 50, k: 100, label: "c04-numa-sum-gt-memory"},
		// sub-piece request on the affinity path: integer divide by zero
		{info: mkNode(2, 100, nil, 1000, 0), origin: ctypes.CPUMap{"0": 100}, base: 100, maxFrag: -1, cpu: 0.001, k: -1, label: "c06-sub-piece-affinity"},
		// memory usage above capacity (Validate does not look at memory)
		{info: mkNode(2, 100, nil, 1000, 1200), base: 100, maxFrag: -1, cpu: 1, mem: 100, k: 100, label: "c06-negative-free-memory"},
		// ids compare bytewise: "10" < "2"
		{info: mkNode(12, 100, map[string]int{"10": 100, "3": 50}, 1000, 0), base: 100, maxFrag: -1, cpu: 1.5, k: 150, label: "ids-bytewise"},
		{info: mkNode(3, 300, map[string]int{"0": 100}, 1000, 0), base: 100, maxFrag: -1, cpu: 1, k: 100, label: "multi-share"},
		{info: mkNode(3, 100, nil, 1000, 0), origin: ctypes.CPUMap{"2": 100, "1": 30}, base: 100, maxFrag: -1, cpu: 1.3, k: 130, label: "affinity"},
	}
	last = []planCase{
		// request below one piece: getFullCPUPlans(cores, 0) loops forever
		{info: mkNode(2, 100, nil, 1000, 0), base: 100, maxFrag: -1, cpu: 0.001, k: -1, label: "c06-sub-piece"},
		// request so large that int(cpu*base) is out of range
		{info: mkNode(2, 100, nil, 1000, 0), base: 100, maxFrag: -1, cpu: 1e18, k: -1, label: "c06-huge-request"},
	}
	return
}

func runPlans(t *testing.T) {
	r := vh.New(t, vh.PropEnv("C04"), "plans")
	r.Coq("From Verif Require Import Base.GoFloat Cpumem.Types Cpumem.Schedule Cpumem.Calc Cpumem.SchedCase.\nClose Scope Z_scope.", "SchedCase.pcase", "SchedCase.p_agree", okFor("p"))
	g := gen{r}
	timeouts := 0

	emit := func(c planCase, stream string) {
		req := &ctypes.WorkloadResourceRequest{CPUBind: true, CPURequest: c.cpu, CPULimit: c.cpu, MemRequest: c.mem, MemLimit: c.mem}
		info := copyNI(c.info)
		var origin ctypes.CPUMap
		if c.origin != nil {
			origin = ctypes.CPUMap{}
			for k, v := range c.origin {
				origin[k] = v
			}
		}
		var o outcome[[]*ctypes.CPUPlan]
		if c.isolate {
			o = *c.pre
			r.Count("isolated")
		} else {
			o = guarded(func() []*ctypes.CPUPlan {
				return schedule.GetCPUPlans(info, origin, c.base, c.maxFrag, req)
			})
		}
		var obs, class string
		var tags []string
		nplans := 0
		switch {
		case o.timeout:
			obs, class = "PTimeout", "timeout"
			timeouts++
		case o.panicMsg != "":
			obs, class = "(PPanic "+coqReason(o.panicMsg)+")", "panic"
		default:
			obs, class = "(PPlans "+coqPlans(o.val)+")", "plans"
			nplans = len(o.val)
			for _, p := range o.val {
				tags = append(tags, p.NUMANode)
			}
		}
		order := numaOrder(c.info, tags)
		term := fmt.Sprintf("(mkP %s %s %s %s %s %s %s %s %s)", coqNI(c.info), zmap(c.origin), vh.ZI(c.base), vh.ZI(c.maxFrag),
			vh.F64(c.cpu), vh.Z(c.mem), strList(order), vh.Z(c.k), obs)
		desc := map[string]any{"stream": stream, "label": c.label, "capacity": c.info.Capacity, "usage": c.info.Usage, "origin": c.origin,
			"share_base": c.base, "max_fragment_cores": c.maxFrag, "cpu_request": c.cpu, "memory_request": c.mem,
			"outcome": class, "panic": o.panicMsg, "plans": o.val, "numa_order": order}
		tg := tagsOfNode(c.info, c.base, c.cpu, c.mem)
		tg["max_share_limited"] = c.maxFrag != -1
		tg["affinity"] = len(c.origin) > 0
		tg["huge_request"] = c.cpu*float64(c.base) >= 9.2e18
		tg["stream"] = "plans"
		tg["isolated"] = c.isolate
		r.Count("outcome=" + class)
		r.Count(fmt.Sprintf("cores=%d", len(c.info.Capacity.CPUMap)))
		r.Count(fmt.Sprintf("numa_nodes=%d", len(c.info.Capacity.NUMAMemory)))
		r.Count(fmt.Sprintf("share_base=%d", c.base))
		r.Count(fmt.Sprintf("max_frag=%d", c.maxFrag))
		switch {
		case nplans == 0:
			r.Count("plans=0")
		case nplans <= 12:
			r.Count("plans=1..12")
		default:
			r.Count("plans>12")
		}
		if len(c.origin) > 0 {
			r.Count("affinity")
		}
		r.Add(term, desc, tg, nplans > 0)
	}

	type queued struct {
		c      planCase
		stream string
		kind   int // 0 corpus, 1 random, 2 run last
	}
	var queue []queued
	kind := 0
	first, last := planCorpus()
	for _, c := range first {
		queue = append(queue, queued{c, "corpus", kind})
	}
	// huge but valid bound requests (whole, fractional, with NUMA, with an origin map, max-share limited):
	// each in its own memory-capped child process
	for i, v := range hugeRequests {
		queue = append(queue, queued{planCase{isolate: true, info: mkNode(4, 100, map[string]int{"0": 50}, 1000, 0), base: 100, maxFrag: -1, cpu: v, k: -1, label: "c06-huge-request"}, "corpus", 0})
		switch i % 3 {
		case 0:
			queue = append(queue, queued{planCase{isolate: true, info: withNUMA(mkNode(4, 100, nil, 1000, 0), 2, 500), base: 100, maxFrag: 2, cpu: v + 0.25, mem: 10, k: -1, label: "c06-huge-request-numa"}, "corpus", 0})
		case 1:
			queue = append(queue, queued{planCase{isolate: true, info: mkNode(3, 300, nil, 1000, 0), origin: ctypes.CPUMap{"1": 100}, base: 100, maxFrag: -1, cpu: v, k: -1, label: "c06-huge-request-affinity"}, "corpus", 0})
		default:
			queue = append(queue, queued{planCase{isolate: true, info: mkNode(2, 1000, nil, 1000, 0), base: 1000, maxFrag: -1, cpu: v / 7, k: -1, label: "c06-huge-request-base1000"}, "corpus", 0})
		}
	}
	n := r.N(900, 20000)
	maxCores := 12
	if r.Tier != "quick" {
		maxCores = 16
	}
	for i := 0; i < n; i++ {
		base := g.pick(100, 100, 100, 100, 10, 1000, 1, 7)
		malformed := i%10 == 9
		info := g.node(base, nodeOpts{maxCores: maxCores, malformed: malformed})
		nc := len(info.Capacity.CPUMap)
		if g.chance(0.7) {
			nc = freeCores(info, base)
		}
		cpu, k := g.cpuRequest(base, nc)
		c := planCase{info: info, base: base, cpu: cpu, k: k, mem: g.memRequest(info), origin: g.origin(info, base)}
		c.maxFrag = g.pick(-1, -1, -1, -1, -1, 1, 2, 3, len(info.Capacity.CPUMap))
		if base == 1000 && len(info.Capacity.CPUMap) > 8 {
			// keep the plan lists small: fragment plans are pieces/fragment per core
			if k > 0 && k%1000 != 0 && k%1000 < 50 {
				c.cpu, c.k = float64(k+100)/1000, k+100
			}
		}
		if malformed && g.chance(0.3) {
			switch g.intn(4) {
			case 0:
				c.base = 0
			case 1:
				c.cpu, c.k = -c.cpu, -1
			case 2:
				c.maxFrag = -g.pick(2, 3)
			case 3:
				c.maxFrag = 0
			}
		}
		c.label = "random"
		if malformed {
			c.label = "malformed"
		}
		if !malformed && g.chance(0.02) {
			// a finite request between 1e9 and ~8e18 cores
			c.cpu, c.k = math.Pow(10, 9+9.9*g.r.Rng.Float64()), -1
			if g.chance(0.5) {
				c.cpu = math.Floor(c.cpu)
			}
			c.isolate = true
			c.label = "huge"
		}
		queue = append(queue, queued{c, c.label, 1})
	}
	kind = 2
	for _, c := range last {
		queue = append(queue, queued{c, "corpus", kind})
	}
	// phase 2: the isolated cases in one child process, then everything in order
	var iso []planCase
	for _, q := range queue {
		if q.c.isolate {
			iso = append(iso, q.c)
		}
	}
	isoRes := isolatedBatch(iso)
	ni := 0
	for _, q := range queue {
		if q.c.isolate {
			q.c.pre = &isoRes[ni]
			ni++
		}
		if q.kind == 1 && timeouts >= 3 {
			continue // an implementation that hangs: stop feeding it random cases
		}
		emit(q.c, q.stream)
	}

	r.Finish("corpus of finding witnesses and boundary cases, then random nodes (1-12 cores quick / 1-16 thorough, uniform / multi-share / odd per-core shares, partially used cores, 0-3 NUMA nodes with random memory split, memory usage), requests k/base on the decimal grid (whole, fragment, mixed, classic bad decimals) and off-grid, max fragment cores in {-1,1,2,3,n}, affinity maps; every 10th case malformed (Validate-rejected nodes, base 0, negative request/max share); huge finite requests (1e9 .. 1e300 cores, around 2^31, 2^53, MaxInt64/base; corpus + 2% of the random cases) run in a child process with a 6 GB address-space cap and a 20 s deadline, a crash of the child being an observed outcome. Non-trivial = at least one plan returned")
}

func runValidate(t *testing.T) {
	r := vh.New(t, vh.PropEnv("C04"), "validate")
	r.Coq("From Verif Require Import Base.GoFloat Cpumem.Types Cpumem.Schedule Cpumem.Calc Cpumem.SchedCase.\nClose Scope Z_scope.", "SchedCase.vcase", "SchedCase.v_agree", "SchedCase.v_ok")
	g := gen{r}
	n := r.N(160, 5000)
	for i := 0; i < n; i++ {
		info := g.node(100, nodeOpts{maxCores: 8, malformed: i%2 == 1})
		cp := copyNI(info)
		err := cp.Validate()
		cls := "VOk"
		switch {
		case err == nil:
		case errors.Is(err, ctypes.ErrInvalidCPUMap):
			cls = "(VErr ErrInvalidCPUMap)"
		case errors.Is(err, ctypes.ErrInvalidNUMACPU):
			cls = "(VErr ErrInvalidNUMACPU)"
		case errors.Is(err, ctypes.ErrInvalidNUMAMemory):
			cls = "(VErr ErrInvalidNUMAMemory)"
		default:
			cls = "(VErr ErrInvalidCapacity)"
		}
		r.Count("validate=" + cls)
		r.Add(fmt.Sprintf("(mkV %s %s)", coqNI(info), cls), map[string]any{"capacity": info.Capacity, "usage": info.Usage, "validate": cls},
			map[string]any{"stream": "validate"}, err != nil)
	}
	r.Finish("random nodes, every second one with one injected fault (usage above capacity, unknown core, negative capacity, missing NUMA entry, missing NUMA memory, NUMA memory overuse, ...); non-trivial = rejected")
}

func errClass(err error) string {
	switch {
	case errors.Is(err, ctypes.ErrInvalidMemory):
		return "(Some CErrInvalidMemory)"
	case errors.Is(err, ctypes.ErrInvalidCPU):
		return "(Some CErrInvalidCPU)"
	case errors.Is(err, coretypes.ErrInsufficientCapacity):
		return "(Some CErrInsufficientCapacity)"
	}
	return "None"
}

func coqEP(e *ctypes.EngineParams) string {
	return fmt.Sprintf("(mkEP %s %s %s %s %s)", vh.F64(e.CPU), zmap(e.CPUMap), str(e.NUMANode), vh.Z(e.Memory), vh.Bool(e.Remap))
}
func coqWR(w *ctypes.WorkloadResource) string {
	return fmt.Sprintf("(mkWR %s %s %s %s %s %s %s)", vh.F64(w.CPURequest), vh.F64(w.CPULimit), vh.Z(w.MemoryRequest), vh.Z(w.MemoryLimit),
		zmap(w.CPUMap), zmap64(w.NUMAMemory), str(w.NUMANode))
}

type deployObs struct {
	err      error
	eps      []*ctypes.EngineParams
	ws       []*ctypes.WorkloadResource
	commitOK bool
	after    *ctypes.NodeResource
}
type capObs struct {
	err     error
	present bool
	cap     *plugintypes.NodeDeployCapacity
	total   int
}

func deployCorpus() (first, last []deployCase) {
	bind := func(cpu float64, mem int64) map[string]any {
		return map[string]any{"cpu-bind": true, "cpu-request": cpu, "memory-request": mem}
	}
	first = []deployCase{
		{info: mkNode(2, 100, nil, 1000, 0), base: 100, maxShare: -1, count: 1, raw: bind(0.29, 0), k: 29, label: "c05-0.29"},
		{info: mkNode(2, 100, nil, 1000, 0), base: 100, maxShare: -1, count: 2, raw: bind(0.57, 10), k: 57, label: "c05-0.57"},
		{info: mkNode(3, 100, nil, 1000, 0), base: 100, maxShare: -1, count: 1, raw: bind(1.15, 0), k: 115, label: "c05-1.15"},
		{info: mkNode(4, 100, map[string]int{"0": 50, "1": 50, "2": 50}, 1000, 0), base: 100, maxShare: 2, count: 1, raw: bind(0.3, 0), k: 30, label: "c06-diff-negative"},
		{info: withNUMA(mkNode(4, 100, nil, 1000, 800), 2, 500), base: 100, maxShare: -1, count: 2, raw: bind(1, 100), k: 100, label: "c04-numa-total-memory"},
		{info: withNUMA(mkNode(4, 100, nil, 1000, 0), 2, 500), base: 100, maxShare: -1, count: 3, raw: bind(1, 100), k: 100, label: "numa-ok"},
		{info: mkNode(4, 100, nil, 1000, 0), base: 100, maxShare: -1, count: 3, raw: map[string]any{"cpu-request": 0.5, "memory-request": int64(300)}, k: 50, label: "memory-only"},
		{info: mkNode(4, 100, nil, 1000, 0), base: 100, maxShare: -1, count: 4, raw: map[string]any{"cpu-request": 0.5, "memory-request": int64(300)}, k: 50, label: "memory-only-insufficient"},
		{info: mkNode(4, 100, nil, 1000, 0), base: 100, maxShare: -1, count: 2, raw: map[string]any{"cpu-bind": true, "cpu-request": 1.0, "cpu-limit": 2.0, "memory-limit": int64(100)}, k: 200, label: "limit-gt-request"},
		{info: mkNode(2, 100, nil, 1000, 1200), base: 100, maxShare: -1, count: 1, raw: bind(1, 100), k: 100, label: "c06-negative-free-memory"},
	}
	// unbound instances whose total memory overflows int64 when multiplied out
	for _, hc := range [][2]int64{{1 << 62, 4}, {1 << 61, 8}, {1 << 60, 16}, {1<<62 + 5, 4}, {1 << 62, 2}, {1 << 40, 3}} {
		first = append(first, deployCase{info: mkNode(4, 100, nil, 8<<30, 0), base: 100, maxShare: -1, count: int(hc[1]),
			raw: map[string]any{"cpu-request": 0.5, "memory-request": hc[0]}, k: 50, label: "c04-huge-memory-product"})
	}
	// huge but valid bound requests through the plugin (the full range runs in the plans stream, isolated)
	for _, v := range []float64{4e13, 1e15, 9e16, 9.2e18} {
		first = append(first, deployCase{info: mkNode(4, 100, nil, 1000, 0), base: 100, maxShare: -1, count: 1, raw: bind(v, 0), k: -1, label: "c06-huge-request"})
	}
	last = []deployCase{
		{info: mkNode(2, 100, nil, 1000, 0), base: 100, maxShare: -1, count: 1, raw: bind(0.001, 0), k: -1, label: "c06-sub-piece"},
	}
	return
}

func runDeploy(t *testing.T) {
	r := vh.New(t, vh.PropEnv("C04"), "deploy")
	r.Coq("From Verif Require Import Base.GoFloat Cpumem.Types Cpumem.Schedule Cpumem.Calc Cpumem.SchedCase.\nClose Scope Z_scope.", "SchedCase.dcase", "SchedCase.d_agree", okFor("d"))
	g := gen{r}
	ctx := context.Background()
	pls := &plugins{t: t, ctx: ctx, m: map[[2]int]*cpumem.Plugin{}}
	seq := 0
	timeouts := 0

	emit := func(c deployCase) {
		seq++
		name := fmt.Sprintf("n%d", seq)
		pl := pls.get(c.base, c.maxShare)
		if _, err := pl.SetNodeResourceInfo(ctx, name, nrToRaw(c.info.Capacity), nrToRaw(c.info.Usage)); err != nil {
			r.Count("node_rejected_by_plugin")
			return
		}
		parsed := &ctypes.WorkloadResourceRequest{}
		_ = parsed.Parse(c.raw)

		// capacity first (read-only)
		co := guarded(func() capObs {
			resp, err := pl.GetNodesDeployCapacity(ctx, []string{name}, c.raw)
			if err != nil {
				return capObs{err: err}
			}
			nc, ok := resp.NodeDeployCapacityMap[name]
			return capObs{present: ok, cap: nc, total: resp.Total}
		})
		if c.count < 0 {
			// count relative to the capacity the plugin just reported: mostly feasible, sometimes one too many
			capN := 0
			if !co.timeout && co.panicMsg == "" && co.val.err == nil && co.val.cap != nil {
				capN = co.val.cap.Capacity
			}
			if capN > 6 {
				capN = 6
			}
			switch x := g.intn(100); {
			case capN >= 1 && x < 75:
				c.count = 1 + g.intn(capN)
			case x < 90:
				c.count = capN + 1
			case x < 95:
				c.count = 0
			default:
				c.count = 1 + g.intn(6)
			}
		}
		attempt := 0
		do := guarded(func() deployObs {
			// every attempt works on its own copy of the node: the commit below is not repeatable
			attempt++
			name := fmt.Sprintf("%s.%d", name, attempt)
			if _, err := pl.SetNodeResourceInfo(ctx, name, nrToRaw(c.info.Capacity), nrToRaw(c.info.Usage)); err != nil {
				panic("harness: cannot store node copy: " + err.Error())
			}
			defer func() { _, _ = pl.RemoveNode(ctx, name) }()
			resp, err := pl.CalculateDeploy(ctx, name, c.count, c.raw)
			if err != nil {
				return deployObs{err: err}
			}
			o := deployObs{}
			for _, raw := range resp.EnginesParams {
				e := &ctypes.EngineParams{}
				if err := mapstructure.Decode(raw, e); err != nil {
					panic("harness: cannot decode engine params: " + err.Error())
				}
				o.eps = append(o.eps, e)
			}
			for _, raw := range resp.WorkloadsResource {
				w := &ctypes.WorkloadResource{}
				if err := w.Parse(raw); err != nil {
					panic("harness: cannot decode workload resource: " + err.Error())
				}
				o.ws = append(o.ws, w)
			}
			_, err = pl.SetNodeResourceUsage(ctx, name, nil, nil, resp.WorkloadsResource, true, true)
			o.commitOK = err == nil
			ri, err := pl.GetNodeResourceInfo(ctx, name, nil)
			if err != nil {
				panic("harness: cannot read node back: " + err.Error())
			}
			o.after = &ctypes.NodeResource{}
			if err := o.after.Parse(ri.Usage); err != nil {
				panic("harness: cannot decode usage: " + err.Error())
			}
			return o
		})
		_, _ = pl.RemoveNode(ctx, name)

		var obs, class string
		var tags []string
		switch {
		case do.timeout:
			obs, class = "DTimeout", "timeout"
			timeouts++
		case do.panicMsg != "":
			if strings.HasPrefix(do.panicMsg, "harness:") {
				t.Fatalf("%s", do.panicMsg)
			}
			obs, class = "(DPanic "+coqReason(do.panicMsg)+")", "panic"
		case do.val.err != nil:
			obs, class = "(DErr "+errClass(do.val.err)+")", "error"
			r.Count("error=" + errClass(do.val.err))
		default:
			eps := make([]string, len(do.val.eps))
			for i, e := range do.val.eps {
				eps[i] = coqEP(e)
			}
			ws := make([]string, len(do.val.ws))
			for i, w := range do.val.ws {
				ws[i] = coqWR(w)
				tags = append(tags, w.NUMANode)
			}
			obs = fmt.Sprintf("(DOk %s %s %s %s)", vh.List(eps), vh.List(ws), vh.Bool(do.val.commitOK), coqNR(do.val.after))
			class = "ok"
			if !do.val.commitOK {
				r.Count("commit_rejected")
			}
		}
		var capTerm, capClass string
		switch {
		case co.timeout:
			capTerm, capClass = "CapTimeout", "timeout"
			timeouts++
		case co.panicMsg != "":
			capTerm, capClass = "(CapPanic "+coqReason(co.panicMsg)+")", "panic"
		case co.val.err != nil:
			capTerm, capClass = "CapErr", "error"
		default:
			nc := co.val.cap
			if nc == nil {
				nc = &plugintypes.NodeDeployCapacity{}
			}
			capTerm = fmt.Sprintf("(CapOk %s %s %s %s %s %s)", vh.Bool(co.val.present), vh.ZI(nc.Capacity), vh.F64(nc.Usage), vh.F64(nc.Rate), vh.F64(nc.Weight), vh.ZI(co.val.total))
			capClass = "ok"
		}
		// the NUMA order is recovered from the deploy output; GetNodesDeployCapacity
		// only reports the number of plans, which does not depend on the order
		order := numaOrder(c.info, tags)
		term := fmt.Sprintf("(mkD %s %s %s %s %s %s %s %s %s)", coqNI(c.info), vh.ZI(c.base), vh.ZI(c.maxShare), vh.ZI(c.count),
			coqReq(parsed), strList(order), vh.Z(c.k), obs, capTerm)
		desc := map[string]any{"label": c.label, "capacity": c.info.Capacity, "usage": c.info.Usage, "share_base": c.base, "max_share": c.maxShare,
			"count": c.count, "request": c.raw, "outcome": class, "panic": do.panicMsg, "capacity_outcome": capClass, "capacity_panic": co.panicMsg,
			"workloads": do.val.ws, "numa_order": order}
		tg := tagsOfNode(c.info, c.base, parsed.CPURequest, parsed.MemRequest)
		tg["max_share_limited"] = c.maxShare != -1
		tg["affinity"] = false
		tg["huge_request"] = parsed.CPURequest*float64(c.base) >= 9.2e18
		tg["stream"] = "deploy"
		r.Count("outcome=" + class)
		r.Count("capacity_outcome=" + capClass)
		r.Count(fmt.Sprintf("bind=%v", parsed.CPUBind))
		r.Count(fmt.Sprintf("share_base=%d max_share=%d", c.base, c.maxShare))
		r.Add(term, desc, tg, class == "ok" && c.count > 0)
	}

	first, last := deployCorpus()
	for _, c := range first {
		emit(c)
	}
	n := r.N(320, 8000)
	cfgs := [][2]int{{100, -1}, {100, -1}, {100, -1}, {100, 2}, {100, 1}, {10, -1}, {1000, 3}, {1, -1}, {7, -1}}
	for i := 0; i < n && timeouts < 3; i++ {
		cf := cfgs[g.intn(len(cfgs))]
		base, maxShare := cf[0], cf[1]
		info := g.node(base, nodeOpts{maxCores: 10})
		nc := len(info.Capacity.CPUMap)
		if g.chance(0.7) {
			nc = freeCores(info, base)
		}
		cpu, k := g.cpuRequest(base, nc)
		mem := g.memRequest(info)
		raw := map[string]any{}
		bindReq := g.chance(0.75)
		if bindReq {
			raw["cpu-bind"] = true
		}
		raw["cpu-request"] = cpu
		switch g.intn(6) {
		case 0:
			raw["cpu-limit"] = cpu * 2
			if bindReq && k > 0 {
				k = 2 * k // Validate raises the request of a bound workload to its limit
			}
		case 1:
			raw["cpu-limit"] = cpu / 2
		case 2:
			if !bindReq {
				delete(raw, "cpu-request")
			}
		}
		if g.chance(0.8) {
			raw["memory-request"] = mem
		}
		if g.chance(0.3) {
			raw["memory-limit"] = mem + int64(g.intn(3)) - 1
		}
		if g.chance(0.03) {
			raw["memory-request"] = int64(-1)
		}
		if g.chance(0.03) {
			raw["cpu-request"] = -cpu
			k = -1
		}
		count := -1
		if !bindReq && g.chance(0.08) {
			// astronomically large unbound requests: count x memory does not fit int64
			sh := uint(55 + g.intn(8))
			raw["memory-request"] = int64(1)<<sh + int64(g.intn(3))
			delete(raw, "memory-limit")
			count = 1 << uint(g.intn(7))
		}
		emit(deployCase{info: info, base: base, maxShare: maxShare, count: count, raw: raw, k: k, label: "random"})
	}
	for _, c := range last {
		if timeouts < 3 {
			emit(c)
		}
	}
	r.Finish("corpus, then random Validate-accepted nodes stored through Plugin.SetNodeResourceInfo on embedded etcd; 75% cpu-bind requests on the decimal grid, memory request none/small/near free/above free, limits above and below requests, a few invalid requests; share base / max share from {100/-1, 100/2, 100/1, 10/-1, 1000/3, 1/-1, 7/-1}; count chosen after GetNodesDeployCapacity (75% within the reported capacity, 15% one above, else 0 or random). Each case: GetNodesDeployCapacity, CalculateDeploy, SetNodeResourceUsage(workloads, incr), GetNodeResourceInfo. Non-trivial = deploy succeeded with count > 0")
}

// ---------- stream "realloc": Plugin.CalculateRealloc ----------

type reallocCase struct {
	info     *ctypes.NodeResourceInfo
	base     int
	maxShare int
	origin   *ctypes.WorkloadResource
	raw      map[string]any
	label    string
}

func wrToRaw(w *ctypes.WorkloadResource) map[string]any {
	return map[string]any{"cpu_request": w.CPURequest, "cpu_limit": w.CPULimit, "memory_request": w.MemoryRequest,
		"memory_limit": w.MemoryLimit, "cpu_map": map[string]int(w.CPUMap), "numa_memory": map[string]int64(w.NUMAMemory), "numa_node": w.NUMANode}
}

func reallocErrClass(err error) string {
	switch {
	case errors.Is(err, ctypes.ErrInvalidMemory):
		return "(Some RErrInvalidMemory)"
	case errors.Is(err, ctypes.ErrInvalidCPU):
		return "(Some RErrInvalidCPU)"
	case errors.Is(err, coretypes.ErrInsufficientResource):
		return "(Some RErrInsufficientResource)"
	case errors.Is(err, coretypes.ErrInsufficientCapacity):
		return "(Some RErrInsufficientCapacity)"
	}
	return "None"
}

// genOrigin builds a workload that plausibly lives on the node and makes the
// node's usage include it.
func (g gen) genOrigin(info *ctypes.NodeResourceInfo, base int) *ctypes.WorkloadResource {
	w := &ctypes.WorkloadResource{CPUMap: ctypes.CPUMap{}, NUMAMemory: ctypes.NUMAMemory{}}
	n := len(info.Capacity.CPUMap)
	pieces := 0
	if g.chance(0.7) { // bound
		for i := 0; i < 1+g.intn(2); i++ {
			id := strconv.Itoa(g.intn(n))
			c := info.Capacity.CPUMap[id]
			if c <= 0 {
				continue
			}
			p := base
			if g.chance(0.4) || p > c {
				p = 1 + g.intn(int(min64(int64(base), int64(c))))
			}
			w.CPUMap[id] = p
			if info.Usage.CPUMap[id] < p {
				info.Usage.CPUMap[id] = p
			}
		}
		for _, p := range w.CPUMap {
			pieces += p
		}
		w.CPURequest = float64(pieces) / float64(base)
		w.CPULimit = w.CPURequest
	} else {
		w.CPURequest = float64(g.intn(200)) / 100
		w.CPULimit = w.CPURequest
	}
	w.MemoryRequest = int64(g.pick(0, 10, 100, 200))
	w.MemoryLimit = w.MemoryRequest
	if info.Usage.Memory < w.MemoryRequest {
		info.Usage.Memory = w.MemoryRequest
	}
	// NUMA node of the workload: the node of its cores when they agree
	if len(w.CPUMap) > 0 && len(info.Capacity.NUMA) > 0 && g.chance(0.8) {
		node := ""
		same := true
		for _, id := range vh.SortedKeys(w.CPUMap) {
			nn := info.Capacity.NUMA[id]
			if node == "" {
				node = nn
			} else if nn != node {
				same = false
			}
		}
		if same && node != "" {
			w.NUMANode = node
			w.NUMAMemory[node] = w.MemoryRequest
			if info.Usage.NUMAMemory[node] < w.MemoryRequest && info.Capacity.NUMAMemory[node] >= w.MemoryRequest {
				info.Usage.NUMAMemory[node] = w.MemoryRequest
			}
		}
	}
	return w
}

func runRealloc(t *testing.T) {
	r := vh.New(t, vh.PropEnv("C04"), "realloc")
	r.Coq("From Verif Require Import Base.GoFloat Cpumem.Types Cpumem.Schedule Cpumem.Calc Cpumem.SchedCase.\nClose Scope Z_scope.", "SchedCase.rcase", "SchedCase.r_agree", okFor("r"))
	g := gen{r}
	ctx := context.Background()
	pls := &plugins{t: t, ctx: ctx, m: map[[2]int]*cpumem.Plugin{}}
	seq := 0
	timeouts := 0

	type robs struct {
		err        error
		ep         *ctypes.EngineParams
		delta, new *ctypes.WorkloadResource
	}
	emit := func(c reallocCase) {
		seq++
		name := fmt.Sprintf("r%d", seq)
		pl := pls.get(c.base, c.maxShare)
		if _, err := pl.SetNodeResourceInfo(ctx, name, nrToRaw(c.info.Capacity), nrToRaw(c.info.Usage)); err != nil {
			r.Count("node_rejected_by_plugin")
			return
		}
		parsed := &ctypes.WorkloadResourceRequest{}
		_ = parsed.Parse(c.raw)
		o := guarded(func() robs {
			resp, err := pl.CalculateRealloc(ctx, name, wrToRaw(c.origin), c.raw)
			if err != nil {
				return robs{err: err}
			}
			x := robs{ep: &ctypes.EngineParams{}, delta: &ctypes.WorkloadResource{}, new: &ctypes.WorkloadResource{}}
			if err := mapstructure.Decode(resp.EngineParams, x.ep); err != nil {
				panic("harness: cannot decode engine params: " + err.Error())
			}
			if err := x.delta.Parse(resp.DeltaResource); err != nil {
				panic("harness: cannot decode delta: " + err.Error())
			}
			if err := x.new.Parse(resp.WorkloadResource); err != nil {
				panic("harness: cannot decode workload resource: " + err.Error())
			}
			return x
		})
		_, _ = pl.RemoveNode(ctx, name)
		var obs, class string
		var tags []string
		switch {
		case o.timeout:
			obs, class = "RTimeout", "timeout"
			timeouts++
		case o.panicMsg != "":
			if strings.HasPrefix(o.panicMsg, "harness:") {
				t.Fatalf("%s", o.panicMsg)
			}
			obs, class = "(RPanic "+coqReason(o.panicMsg)+")", "panic"
		case o.val.err != nil:
			obs, class = "(RErr "+reallocErrClass(o.val.err)+")", "error"
			r.Count("error=" + reallocErrClass(o.val.err))
		default:
			obs = fmt.Sprintf("(ROk %s %s %s)", coqEP(o.val.ep), coqWR(o.val.delta), coqWR(o.val.new))
			class = "ok"
			tags = []string{o.val.new.NUMANode}
		}
		order := numaOrder(c.info, tags)
		term := fmt.Sprintf("(mkR %s %s %s %s %s %s %s)", coqNI(c.info), vh.ZI(c.base), vh.ZI(c.maxShare), coqWR(c.origin), coqReq(parsed), strList(order), obs)
		desc := map[string]any{"label": c.label, "capacity": c.info.Capacity, "usage": c.info.Usage, "share_base": c.base, "max_share": c.maxShare,
			"origin": c.origin, "request": c.raw, "outcome": class, "panic": o.panicMsg, "new": o.val.new, "delta": o.val.delta, "numa_order": order}
		r.Count("outcome=" + class)
		r.Count(fmt.Sprintf("origin_bound=%v", len(c.origin.CPUMap) > 0))
		r.Count(fmt.Sprintf("keep=%v bind=%v", parsed.KeepCPUBind, parsed.CPUBind))
		r.Add(term, desc, map[string]any{"stream": "realloc"}, class == "ok")
	}

	// corpus
	{
		n := withNUMA(mkNode(4, 100, map[string]int{"0": 100, "1": 30}, 1000, 100), 2, 500)
		n.Usage.NUMAMemory["0"] = 100
		w := &ctypes.WorkloadResource{CPURequest: 1.3, CPULimit: 1.3, MemoryRequest: 100, MemoryLimit: 100,
			CPUMap: ctypes.CPUMap{"0": 100, "1": 30}, NUMAMemory: ctypes.NUMAMemory{"0": 100}, NUMANode: "0"}
		emit(reallocCase{info: n, base: 100, maxShare: -1, origin: w, raw: map[string]any{"keep-cpu-bind": true, "cpu-request": 0.2, "memory-request": int64(50)}, label: "keep-bind-grow"})
		emit(reallocCase{info: copyNI(n), base: 100, maxShare: -1, origin: w, raw: map[string]any{"keep-cpu-bind": true, "cpu-request": -0.3}, label: "keep-bind-shrink"})
		emit(reallocCase{info: copyNI(n), base: 100, maxShare: -1, origin: w, raw: map[string]any{"cpu-bind": false, "memory-request": int64(10)}, label: "unbind"})
		emit(reallocCase{info: copyNI(n), base: 100, maxShare: -1, origin: w, raw: map[string]any{"keep-cpu-bind": true, "cpu-request": 9.0}, label: "too-much"})
		emit(reallocCase{info: copyNI(n), base: 100, maxShare: -1, origin: w, raw: map[string]any{"keep-cpu-bind": true, "cpu-request": -1.299}, label: "shrink-below-one-piece"})
		// keep-bind realloc of a workload on NUMA node 1 while node 0 has room too: the NUMA node
		// holding the origin's cores is visited first (before /repo's NUMA-order fix the answer
		// depended on Go's map iteration order)
		alt := mkNode(4, 100, map[string]int{"1": 100}, 1000, 100)
		alt.Capacity.NUMA = ctypes.NUMA{"0": "0", "1": "1", "2": "0", "3": "1"}
		alt.Capacity.NUMAMemory = ctypes.NUMAMemory{"0": 500, "1": 500}
		alt.Usage.NUMAMemory = ctypes.NUMAMemory{"0": 0, "1": 100}
		wAlt := &ctypes.WorkloadResource{CPURequest: 1, CPULimit: 1, MemoryRequest: 100, MemoryLimit: 100,
			CPUMap: ctypes.CPUMap{"1": 100}, NUMAMemory: ctypes.NUMAMemory{"1": 100}, NUMANode: "1"}
		for i := 0; i < 6; i++ {
			emit(reallocCase{info: copyNI(alt), base: 100, maxShare: -1, origin: wAlt, raw: map[string]any{"keep-cpu-bind": true}, label: "numa-origin-node-first"})
		}
	}
	n := r.N(220, 6000)
	cfgs := [][2]int{{100, -1}, {100, -1}, {100, 2}, {10, -1}, {1000, 3}}
	for i := 0; i < n && timeouts < 3; i++ {
		cf := cfgs[g.intn(len(cfgs))]
		base, maxShare := cf[0], cf[1]
		info := g.node(base, nodeOpts{maxCores: 8})
		origin := g.genOrigin(info, base)
		raw := map[string]any{}
		switch g.intn(3) {
		case 0:
			raw["keep-cpu-bind"] = true
		case 1:
			raw["cpu-bind"] = true
		}
		switch g.intn(4) {
		case 0:
			raw["cpu-request"] = float64(g.intn(3*base)) / float64(base)
		case 1:
			raw["cpu-request"] = -float64(g.intn(base)) / float64(base)
		case 2:
			raw["cpu-request"] = -origin.CPURequest
		}
		if g.chance(0.3) {
			raw["cpu-limit"] = float64(g.intn(2*base)) / float64(base)
		}
		switch g.intn(4) {
		case 0:
			raw["memory-request"] = int64(g.intn(300))
		case 1:
			raw["memory-request"] = -int64(g.intn(150))
		case 2:
			raw["memory-request"] = g.memRequest(info)
		}
		if g.chance(0.2) {
			raw["memory-limit"] = int64(g.intn(400)) - 100
		}
		emit(reallocCase{info: info, base: base, maxShare: maxShare, origin: origin, raw: raw, label: "random"})
	}
	r.Finish("corpus (keep-bind grow/shrink, unbind, too much, shrink below one piece), then random Validate-accepted nodes with an origin workload (70% bound to 1-2 cores of the node, usage raised to include it, NUMA node recorded when its cores agree) and request deltas (cpu +/-/to zero, memory +/-), keep-cpu-bind / cpu-bind / neither; Plugin.CalculateRealloc through the public API on embedded etcd. Non-trivial = realloc succeeded")
}


// ---------- stream "pdq": sort.Slice itself ----------

func runPdq(t *testing.T) {
	r := vh.New(t, vh.PropEnv("C04"), "pdq")
	r.Coq("From Verif Require Import Base.GoFloat Cpumem.Types Cpumem.Schedule Cpumem.Calc Cpumem.SchedCase.\nClose Scope Z_scope.", "SchedCase.qcase", "SchedCase.q_agree", "SchedCase.q_ok")
	g := gen{r}
	type el struct{ key, idx int }
	emit := func(keys []int, kind string) {
		xs := make([]el, len(keys))
		for i, k := range keys {
			xs[i] = el{k, i}
		}
		sort.Slice(xs, func(i, j int) bool { return xs[i].key < xs[j].key })
		ks, obs := make([]int64, len(keys)), make([]int64, len(keys))
		for i := range keys {
			ks[i], obs[i] = int64(keys[i]), int64(xs[i].idx)
		}
		r.Count("kind=" + kind)
		switch n := len(keys); {
		case n <= 12:
			r.Count("len<=12")
		case n < 50:
			r.Count("len=13..49")
		default:
			r.Count("len>=50")
		}
		r.Add(fmt.Sprintf("(mkQ %s %s)", vh.ZList(ks), vh.ZList(obs)), map[string]any{"kind": kind, "keys": keys, "order": obs}, map[string]any{"stream": "pdq"}, len(keys) > 12)
	}
	mk := func(n int, kind string) []int {
		ks := make([]int, n)
		m := 1 + g.intn(n+1)
		for i := range ks {
			switch kind {
			case "random":
				ks[i] = g.intn(4 * (n + 1))
			case "fewdistinct":
				ks[i] = g.intn(1 + m%5)
			case "sorted":
				ks[i] = i / (1 + m%3)
			case "reversed":
				ks[i] = (n - i) / (1 + m%3)
			case "equal":
				ks[i] = 7
			case "sawtooth":
				ks[i] = i % (2 + m%9)
			case "organpipe":
				if i < n/2 {
					ks[i] = i
				} else {
					ks[i] = n - i
				}
			case "nearlysorted":
				ks[i] = i
			case "pushfront":
				ks[i] = i + 1
			}
		}
		switch kind {
		case "nearlysorted":
			for s := 0; s < 1+m%4 && n > 1; s++ {
				a, b := g.intn(n), g.intn(n)
				ks[a], ks[b] = ks[b], ks[a]
			}
		case "pushfront":
			if n > 0 {
				ks[n-1] = 0
			}
		}
		return ks
	}
	// McIlroy's adversary run against sort.Slice itself: the key array it leaves behind makes
	// the same (deterministic) sort take its worst path again: unbalanced partitions,
	// breakPatterns and finally the heapsort fall-back
	killer := func(n int) []int {
		gas := n
		val := make([]int, n)
		for i := range val {
			val[i] = gas
		}
		items := make([]int, n)
		for i := range items {
			items[i] = i
		}
		nsolid, candidate := 0, 0
		sort.Slice(items, func(i, j int) bool {
			x, y := items[i], items[j]
			if val[x] == gas && val[y] == gas {
				if x == candidate {
					val[x] = nsolid
				} else {
					val[y] = nsolid
				}
				nsolid++
			}
			if val[x] == gas {
				candidate = x
			} else if val[y] == gas {
				candidate = y
			}
			return val[x] < val[y]
		})
		return val
	}
	kinds := []string{"random", "fewdistinct", "sorted", "reversed", "equal", "sawtooth", "organpipe", "nearlysorted", "pushfront"}
	for _, n := range []int{0, 1, 2, 12, 13, 14, 49, 50, 51, 64, 100} {
		for _, k := range kinds {
			emit(mk(n, k), k)
		}
	}
	for _, n := range []int{13, 20, 33, 50, 64, 100, 128, 200, 300, 500} {
		emit(killer(n), "killer")
	}
	n := r.N(150, 3000)
	for i := 0; i < n; i++ {
		var ln int
		switch g.intn(4) {
		case 0:
			ln = 13 + g.intn(20)
		case 1:
			ln = 13 + g.intn(60)
		case 2:
			ln = 50 + g.intn(150)
		default:
			ln = g.intn(400)
		}
		if g.chance(0.1) {
			emit(killer(13+ln), "killer")
			continue
		}
		k := kinds[g.intn(len(kinds))]
		emit(mk(ln, k), k)
	}
	r.Finish("sort.Slice on key lists with ties (original index as payload): fixed lengths around the algorithm's thresholds (12/13, 49/50) x 9 shapes, then random lengths up to 400 of random / few-distinct / sorted / reversed / all-equal / sawtooth / organ-pipe / nearly-sorted / push-front shapes; non-trivial = more than 12 elements (pdqsort proper)")
}
