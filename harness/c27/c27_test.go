// Package c27 drives the real discovery/helium (and, in the etcd scripts, the
// real store/etcdv3 ServiceStatusStream + RegisterService) through timed
// scripts and emits what every subscriber received as Coq terms for
// Discovery/Helium.v.
//
// Time discipline.  helium's ticker fires at T0+k*I (I = push interval; T0 is
// measured per run with a throw-away subscriber that receives two consecutive
// ticks -- a run is invalid unless they are one interval apart -- and is
// unsubscribed again before the script starts).  Script actions run one per slot inside the
// window [T0+k*I+w0, T0+k*I+w0+n*slot) which stays clear of the ticks; AWait is
// the only action that spans a tick (exactly one).  After each slot the
// harness snapshots, per subscriber, the messages received during the slot.
package c27

import (
	"context"
	"fmt"
	"os"
	"sort"
	"strconv"
	"strings"
	"sync"
	"sync/atomic"
	"testing"
	"time"

	"verifharness/cw"
	"verifharness/vh"

	"github.com/alphadose/haxmap"
	"github.com/google/uuid"
	"github.com/projecteru2/core/discovery/helium"
	"github.com/projecteru2/core/store"
	"github.com/projecteru2/core/store/etcdv3"
	"github.com/projecteru2/core/store/etcdv3/embedded"
	"github.com/projecteru2/core/store/etcdv3/meta"
	"github.com/projecteru2/core/types"
	clientv3 "go.etcd.io/etcd/client/v3"
)

const (
	interval  = 2 * time.Second
	w0        = 350 * time.Millisecond
	slotLen   = 250 * time.Millisecond
	slotsPerI = 5
	lateLimit = 120 * time.Millisecond
	poison    = 999999
)

// ---- script ----

type action struct {
	Kind    string   `json:"kind"` // set close put del sub read stall cancel unsub cancelunsub wait
	Addrs   []int    `json:"addrs,omitempty"`
	Addr    int      `json:"addr,omitempty"`
	Sub     int      `json:"sub,omitempty"`     // subscriber number; for corpus scripts with Sym: rank in map order
	Sym     bool     `json:"sym,omitempty"`     // Sub is a rank in haxmap iteration order among the subscribers so far
	Reading bool     `json:"reading,omitempty"` // sub: initial mode
	Ops     []action `json:"ops,omitempty"`     // batch: put/del of distinct addresses in ONE etcd transaction
}

type script struct {
	Name     string   `json:"name"`
	Etcd     bool     `json:"etcd"`
	StartErr bool     `json:"start_err"`
	Keys0    []int    `json:"keys0,omitempty"`    // etcd: registered before helium.New
	PreWatch []action `json:"prewatch,omitempty"` // etcd: put/del executed when the stream calls Watch, before the watch exists
	Between  []action `json:"between,omitempty"`  // etcd: put/del executed after the stream's Watch, before its Get
	Acts     []action `json:"actions"`
}

type slotObs struct {
	Act action    `json:"act"`
	Got [][][]int `json:"got"`
}

type result struct {
	Script    script    `json:"script"`
	Slots     []slotObs `json:"slots"`
	Keys      []int     `json:"keys"` // per subscriber: rank of its key hash
	FinClosed []bool    `json:"fin_closed"`
	FinUnsub  []bool    `json:"fin_unsub"`
	Late      bool      `json:"late"`
	Err       string    `json:"err,omitempty"`
}

// ---- stub store ----

type stubStore struct {
	store.Store
	ch  chan []string
	err error
}

func (s *stubStore) ServiceStatusStream(context.Context) (chan []string, error) {
	if s.err != nil {
		return nil, s.err
	}
	return s.ch, nil
}

func addrName(i int) string { return fmt.Sprintf("10.0.%d.%d:5001", i/200, i%200) }
func addrOrd(s string) int {
	s = strings.TrimSuffix(s, ":5001")
	p := strings.Split(s, ".")
	if len(p) != 4 {
		return poison
	}
	a, e1 := strconv.Atoi(p[2])
	b, e2 := strconv.Atoi(p[3])
	if e1 != nil || e2 != nil {
		return poison
	}
	return a*200 + b
}

// prefixKV renames the keys of one script (Watch/Get/StartEphemeral are what
// ServiceStatusStream and RegisterService use); everything else passes through.
type prefixKV struct {
	meta.KV
	p        string
	once     sync.Once
	preGet   func() // runs inside the first Get: ServiceStatusStream has its watch by then
	onceW    sync.Once
	preWatch func()        // runs inside the first Watch call, before the watch is requested
	gotDone  chan struct{} // closed when the first Get has returned
}

func (k *prefixKV) Watch(ctx context.Context, key string, opts ...clientv3.OpOption) clientv3.WatchChan {
	k.onceW.Do(func() {
		if k.preWatch != nil {
			k.preWatch()
		}
	})
	return k.KV.Watch(ctx, k.p+key, opts...)
}
func (k *prefixKV) Get(ctx context.Context, key string, opts ...clientv3.OpOption) (*clientv3.GetResponse, error) {
	first := false
	k.once.Do(func() {
		first = true
		if k.preGet != nil {
			k.preGet()
		}
	})
	r, err := k.KV.Get(ctx, k.p+key, opts...)
	if first && k.gotDone != nil {
		close(k.gotDone)
	}
	return r, err
}
func (k *prefixKV) StartEphemeral(ctx context.Context, path string, heartbeat time.Duration) (<-chan struct{}, func(), error) {
	return k.KV.StartEphemeral(ctx, k.p+path, heartbeat)
}

// ---- subscriber ----

type ctl struct {
	reading bool
	ack     chan struct{}
}

type subscriber struct {
	id        uuid.UUID
	ch        <-chan types.ServiceStatus
	cancel    context.CancelFunc
	ctlc      chan ctl
	quit      chan struct{}
	mu        sync.Mutex
	msgs      [][]int
	want      time.Duration // expected Interval of a pushed status (default: twice the harness's push interval)
	sawClosed atomic.Bool
}

func (s *subscriber) run(reading, etcdMode bool) {
	closed := false
	for {
		var rc <-chan types.ServiceStatus
		if reading && !closed {
			rc = s.ch
		}
		select {
		case m, ok := <-rc:
			if !ok {
				closed = true
				s.sawClosed.Store(true)
				continue
			}
			out := []int{}
			for _, a := range m.Addresses {
				out = append(out, addrOrd(a))
			}
			if etcdMode {
				sort.Ints(out)
			}
			want := s.want
			if want == 0 {
				want = 2 * interval
			}
			if !(m.Interval == want || (m.Interval == 0 && m.Addresses == nil)) {
				out = []int{poison}
			}
			s.mu.Lock()
			s.msgs = append(s.msgs, out)
			s.mu.Unlock()
		case c := <-s.ctlc:
			reading = c.reading
			close(c.ack)
		case <-s.quit:
			return
		}
	}
}

func (s *subscriber) setReading(b bool) {
	ack := make(chan struct{})
	s.ctlc <- ctl{b, ack}
	<-ack
}

func (s *subscriber) take() [][]int {
	s.mu.Lock()
	defer s.mu.Unlock()
	out := s.msgs
	s.msgs = nil
	if out == nil {
		out = [][]int{}
	}
	return out
}

// ---- running one script ----

func runScript(sc script, mercury *etcdv3.Mercury, raw *clientv3.Client) (res result) {
	res.Script = sc
	defer func() {
		if e := recover(); e != nil {
			res.Err = fmt.Sprint(e)
		}
	}()
	root, rootCancel := context.WithCancel(context.Background())
	defer rootCancel()

	var st store.Store
	var stub *stubStore
	sendq := make(chan func(), 64) // stub stream goroutine: FIFO of blocking sends / close
	if sc.Etcd {
		st = mercury
	} else {
		stub = &stubStore{ch: make(chan []string)}
		if sc.StartErr {
			stub.err = types.ErrInvaildCount
		}
		st = stub
		go func() {
			for f := range sendq {
				f()
			}
		}()
		defer close(sendq)
	}

	unregs := map[int]func(){}
	plain := map[int]bool{} // addresses put by a batch (no lease)
	defer func() {
		for _, u := range unregs {
			go u()
		}
	}()
	kvop := func(a action) {
		switch a.Kind {
		case "put":
			// real RegisterService: lease + put-if-absent; the returned func revokes the lease
			_, unreg, err := mercury.RegisterService(root, addrName(a.Addr), 30*time.Second)
			if err == nil {
				unregs[a.Addr] = unreg
			}
		case "del":
			if u := unregs[a.Addr]; u != nil {
				delete(unregs, a.Addr)
				u()
			}
		case "batch":
			// one transaction = one revision = one watch response carrying all the events
			pfx := mercury.KV.(*prefixKV).p
			var ops []clientv3.Op
			for _, o := range a.Ops {
				key := pfx + "/services/" + addrName(o.Addr)
				if o.Kind == "put" {
					if u := unregs[o.Addr]; u != nil {
						continue // held by a lease of RegisterService: leave it alone (no event either way)
					}
					ops = append(ops, clientv3.OpPut(key, ""))
					addr := o.Addr
					plain[addr] = true
				} else {
					if unregs[o.Addr] != nil && !plain[o.Addr] {
						// registered through RegisterService: revoke outside the batch is not
						// the same response; the generator avoids this
						continue
					}
					ops = append(ops, clientv3.OpDelete(key))
					delete(plain, o.Addr)
					delete(unregs, o.Addr)
				}
			}
			if len(ops) > 0 {
				if _, err := raw.Txn(root).Then(ops...).Commit(); err != nil {
					panic("batch txn: " + err.Error())
				}
			}
			for _, o := range a.Ops {
				if o.Kind == "put" && plain[o.Addr] {
					addr := o.Addr
					key := pfx + "/services/" + addrName(addr)
					unregs[addr] = func() { _, _ = raw.Delete(context.Background(), key) }
				}
			}
		}
	}
	if sc.Etcd {
		for _, k := range sc.Keys0 {
			kvop(put(k))
		}
		if pk, ok := mercury.KV.(*prefixKV); ok {
			pk.gotDone = make(chan struct{})
			pk.preGet = func() {
				for _, a := range sc.Between {
					kvop(a)
				}
			}
			pk.preWatch = func() {
				for _, a := range sc.PreWatch {
					kvop(a)
				}
			}
		}
	}

	h := helium.New(root, types.GRPCConfig{ServiceDiscoveryPushInterval: interval}, st)
	t0 := time.Now()
	tickSeen := false
	if !sc.StartErr {
		// Calibration of the ticker phase (the ticker is created by helium's goroutine
		// some time after New returns): a throw-away subscriber, gone again before the
		// script starts, receives its first message from the first tick.
		if sc.Etcd {
			// the stream's start-up (Watch, Get, replayed changes) must be over and
			// consumed before the first message can be taken for a tick
			select {
			case <-mercury.KV.(*prefixKV).gotDone:
			case <-time.After(20 * time.Second):
				res.Late = true
			}
			time.Sleep(1200 * time.Millisecond)
		}
		cctx, ccancel := context.WithCancel(root)
		cid, cch := h.Subscribe(cctx)
		// two consecutive messages one interval apart: only ticks are spaced like that
		var t1 time.Time
		select {
		case <-cch:
			t1 = time.Now()
			select {
			case <-cch:
				t2 := time.Now()
				if d := t2.Sub(t1) - interval; d > 200*time.Millisecond || d < -200*time.Millisecond {
					res.Late = true
				}
				t0 = t2.Add(-2 * interval) // ticks at t0 + k*interval; two of them are gone
				tickSeen = true
			case <-time.After(interval + 1500*time.Millisecond):
				res.Late = true
			}
		case <-time.After(interval + 1500*time.Millisecond):
			res.Late = true
		}
		ccancel()
		udone := make(chan struct{})
		go func() { h.Unsubscribe(cid); close(udone) }()
		select {
		case <-udone:
		case <-time.After(time.Second):
			res.Late = true
		}
	}

	var subs []*subscriber
	shadow := haxmap.New[uint32, int]()
	defer func() {
		for _, s := range subs {
			close(s.quit)
		}
	}()
	var unsubRet []*atomic.Bool
	order := func() []int { // subscriber numbers in haxmap iteration order
		var o []int
		shadow.ForEach(func(_ uint32, v int) bool { o = append(o, v); return true })
		return o
	}
	resolve := func(a action) int {
		if a.Sym {
			return order()[a.Sub]
		}
		return a.Sub
	}

	k, m := 0, 0 // current interval, next slot in it
	if tickSeen {
		k = 2 // the calibration consumed ticks 1 and 2; the script starts in the interval after them
	}
	snapshot := func(a action) {
		got := make([][][]int, len(subs))
		for i, s := range subs {
			got[i] = s.take()
		}
		res.Slots = append(res.Slots, slotObs{Act: a, Got: got})
	}
	sleepUntil := func(d time.Duration) {
		target := t0.Add(d)
		time.Sleep(time.Until(target))
		if time.Since(target) > lateLimit {
			res.Late = true
		}
	}
	unsubscribe := func(i int) {
		b := &atomic.Bool{}
		unsubRet = append(unsubRet, b)
		id := subs[i].id
		go func() { h.Unsubscribe(id); b.Store(true) }()
	}

	for _, a := range sc.Acts {
		if a.Kind == "wait" {
			k++
			m = 0
			sleepUntil(time.Duration(k)*interval + w0)
			snapshot(a)
			continue
		}
		if m >= slotsPerI {
			panic("script has more than " + strconv.Itoa(slotsPerI) + " actions between waits")
		}
		sleepUntil(time.Duration(k)*interval + w0 + time.Duration(m)*slotLen)
		m++
		switch a.Kind {
		case "set":
			l := make([]string, len(a.Addrs))
			for i, x := range a.Addrs {
				l[i] = addrName(x)
			}
			if a.Addrs == nil {
				l = nil
			}
			sendq <- func() { stub.ch <- l }
		case "close":
			sendq <- func() { close(stub.ch) }
		case "put", "del", "batch":
			kvop(a)
		case "sub":
			ctx, cancel := context.WithCancel(root)
			id, ch := h.Subscribe(ctx)
			s := &subscriber{id: id, ch: ch, cancel: cancel, ctlc: make(chan ctl), quit: make(chan struct{})}
			shadow.Set(id.ID(), len(subs))
			subs = append(subs, s)
			go s.run(a.Reading, sc.Etcd)
		case "read":
			a.Sub, a.Sym = resolve(a), false
			subs[a.Sub].setReading(true)
		case "stall":
			a.Sub, a.Sym = resolve(a), false
			subs[a.Sub].setReading(false)
		case "cancel":
			a.Sub, a.Sym = resolve(a), false
			subs[a.Sub].cancel()
		case "unsub":
			a.Sub, a.Sym = resolve(a), false
			unsubscribe(a.Sub)
		case "cancelunsub":
			// calcium.WatchServiceStatus: <-ctx.Done(); c.watcher.Unsubscribe(id)
			a.Sub, a.Sym = resolve(a), false
			subs[a.Sub].cancel()
			unsubscribe(a.Sub)
		default:
			panic("unknown action " + a.Kind)
		}
		sleepUntil(time.Duration(k)*interval + w0 + time.Duration(m)*slotLen - 10*time.Millisecond)
		snapshot(a)
	}

	// final observation: stop all readers, then probe the channels
	for _, s := range subs {
		s.setReading(false)
	}
	for _, s := range subs {
		closed := false
		select {
		case _, ok := <-s.ch:
			closed = !ok
		default:
		}
		res.FinClosed = append(res.FinClosed, closed)
	}
	for _, b := range unsubRet {
		res.FinUnsub = append(res.FinUnsub, b.Load())
	}
	if res.FinClosed == nil {
		res.FinClosed = []bool{}
	}
	if res.FinUnsub == nil {
		res.FinUnsub = []bool{}
	}
	// ranks of the key hashes
	res.Keys = make([]int, len(subs))
	for rank, i := range order() {
		res.Keys[i] = rank
	}
	// let blocked goroutines go: cancel everything, drain
	rootCancel()
	for _, s := range subs {
		s.cancel()
	}
	return res
}

// ---- Coq terms ----

func coqAset(a []int) string {
	s := make([]string, len(a))
	for i, x := range a {
		s[i] = strconv.Itoa(x)
	}
	return "[" + strings.Join(s, ";") + "]"
}

func coqAction(a action, keys []int, nsubBefore int) string {
	switch a.Kind {
	case "set":
		return "(ASet " + coqAset(a.Addrs) + ")"
	case "close":
		return "AClose"
	case "put":
		return fmt.Sprintf("(APut %d)", a.Addr)
	case "del":
		return fmt.Sprintf("(ADel %d)", a.Addr)
	case "batch":
		out := make([]string, len(a.Ops))
		for i, o := range a.Ops {
			if o.Kind == "put" {
				out[i] = fmt.Sprintf("Put %d", o.Addr)
			} else {
				out[i] = fmt.Sprintf("Del %d", o.Addr)
			}
		}
		return "(ABatch [" + strings.Join(out, ";") + "])"
	case "sub":
		return fmt.Sprintf("(ASub %d %s)", keys[nsubBefore], vh.Bool(a.Reading))
	case "read":
		return fmt.Sprintf("(ARead %d)", a.Sub)
	case "stall":
		return fmt.Sprintf("(AStall %d)", a.Sub)
	case "cancel":
		return fmt.Sprintf("(ACancel %d)", a.Sub)
	case "unsub":
		return fmt.Sprintf("(AUnsub %d)", a.Sub)
	case "cancelunsub":
		return fmt.Sprintf("(ACancelUnsub %d)", a.Sub)
	case "wait":
		return "AWait"
	}
	panic("bad action")
}

func coqCase(res result) string {
	var slots []string
	nsub := 0
	for _, sl := range res.Slots {
		act := coqAction(sl.Act, res.Keys, nsub)
		if sl.Act.Kind == "sub" {
			nsub++
		}
		per := make([]string, len(sl.Got))
		for i, ms := range sl.Got {
			l := make([]string, len(ms))
			for j, m := range ms {
				l[j] = coqAset(m)
			}
			per[i] = "[" + strings.Join(l, ";") + "]"
		}
		slots = append(slots, fmt.Sprintf("(mkSlot %s [%s])", act, strings.Join(per, ";")))
	}
	bl := func(bs []bool) string {
		s := make([]string, len(bs))
		for i, b := range bs {
			s[i] = vh.Bool(b)
		}
		return "[" + strings.Join(s, ";") + "]"
	}
	kvs := func(as []action) string {
		out := make([]string, len(as))
		for i, a := range as {
			if a.Kind == "put" {
				out[i] = fmt.Sprintf("Put %d", a.Addr)
			} else {
				out[i] = fmt.Sprintf("Del %d", a.Addr)
			}
		}
		return strings.Join(out, ";")
	}
	return fmt.Sprintf("(mkCase %s %s %s [%s] [%s] [%s] %s %s)", vh.Bool(res.Script.StartErr), vh.Bool(res.Script.Etcd),
		coqAset(res.Script.Keys0), kvs(res.Script.PreWatch), kvs(res.Script.Between),
		strings.Join(slots, ";\n    "), bl(res.FinClosed), bl(res.FinUnsub))
}

// stallExposed describes the INPUT: at some action that makes the loop run a
// dispatch (set/put/del/unsub/wait) a subscriber is in the map (subscribed,
// Unsubscribe not yet called), not reading and not cancelled.
func stallExposed(res result) bool {
	type fl struct{ reading, cancel, unsub bool }
	var f []fl
	for _, sl := range res.Slots {
		a := sl.Act
		switch a.Kind {
		case "sub":
			f = append(f, fl{reading: a.Reading})
		case "read":
			f[a.Sub].reading = true
		case "stall":
			f[a.Sub].reading = false
		case "cancel":
			f[a.Sub].cancel = true
		}
		switch a.Kind {
		case "set", "put", "del", "batch", "unsub", "cancelunsub", "wait":
			for i, x := range f {
				if (a.Kind == "cancelunsub" || a.Kind == "unsub") && i == a.Sub {
					continue
				}
				if !x.reading && !x.cancel && !x.unsub {
					return true
				}
			}
		}
		switch a.Kind {
		case "unsub":
			f[a.Sub].unsub = true
		case "cancelunsub":
			f[a.Sub].cancel, f[a.Sub].unsub = true, true
		}
	}
	return false
}

// ---- generators ----

func A(kind string) action             { return action{Kind: kind} }
func set(a ...int) action              { return action{Kind: "set", Addrs: append([]int{}, a...)} }
func sub(reading bool) action          { return action{Kind: "sub", Reading: reading} }
func on(kind string, i int) action     { return action{Kind: kind, Sub: i} }
func onRank(kind string, r int) action { return action{Kind: kind, Sub: r, Sym: true} }
func put(a int) action                 { return action{Kind: "put", Addr: a} }
func del(a int) action                 { return action{Kind: "del", Addr: a} }
func batch(ops ...action) action       { return action{Kind: "batch", Ops: ops} }

var wait = A("wait")

func corpus() []script {
	return []script{
		{Name: "basic", Acts: []action{set(1, 2), sub(true), wait, set(1, 2, 3), wait, on("cancelunsub", 0), wait}},
		{Name: "two-subs-one-cancelled", Acts: []action{set(1), sub(true), sub(false), on("cancel", 1), set(1, 4), wait, on("unsub", 1), on("cancelunsub", 0), wait}},
		// the witness of the finding: the first subscriber in map order stalls; the
		// second one starves and its Unsubscribe does not return for 3 intervals
		{Name: "witness-stalled-first", Acts: []action{set(1), sub(true), sub(true), wait, onRank("stall", 0), set(1, 2), wait, onRank("unsub", 1), wait, wait, wait, onRank("read", 0), wait}},
		{Name: "stalled-last", Acts: []action{set(1), sub(true), sub(true), wait, onRank("stall", 1), set(1, 2), set(3), wait, onRank("cancel", 1), wait}},
		{Name: "stream-closed", Acts: []action{set(5), sub(true), wait, A("close"), on("unsub", 0), wait}},
		{Name: "start-error", StartErr: true, Acts: []action{sub(true), wait, on("cancelunsub", 0), wait}},
		{Name: "subscribe-before-first-status", Acts: []action{sub(true), wait, set(7, 8), wait, on("cancelunsub", 0), wait}},
		{Name: "double-unsubscribe", Acts: []action{set(1), sub(true), on("unsub", 0), on("unsub", 0), wait, set(2), wait}},
		{Name: "cancel-unblocks-dispatch", Acts: []action{set(1), sub(false), sub(true), set(2), wait, on("cancel", 0), wait, on("unsub", 0), on("cancelunsub", 1), wait}},
		{Name: "reading-and-cancelled", Acts: []action{set(1), sub(true), on("cancel", 0), set(2), set(3), wait, on("unsub", 0), wait}},
		{Name: "same-list-twice", Acts: []action{set(1, 2), sub(true), set(1, 2), set(), set(1, 2), wait, on("cancelunsub", 0), wait}},
		{Name: "late-subscriber", Acts: []action{set(1), set(1, 2), wait, sub(true), wait, sub(true), on("cancelunsub", 0), wait, on("cancelunsub", 1), wait}},
	}
}

func corpusEtcd() []script {
	return []script{
		{Name: "etcd-basic", Etcd: true, Acts: []action{sub(true), put(1), put(2), wait, del(1), wait, on("cancelunsub", 0), wait}},
		// changes committed between the stream's Watch and its Get are seen by the Get AND replayed by the watch
		{Name: "etcd-watch-get-window", Etcd: true, Keys0: []int{1, 2}, PreWatch: []action{put(7), del(2), put(2)}, Between: []action{put(3), del(1), put(1), del(2)},
			Acts: []action{sub(true), wait, put(2), wait, on("cancelunsub", 0), wait}},
		{Name: "etcd-window-put-del", Etcd: true, Keys0: []int{4}, PreWatch: []action{put(8)}, Between: []action{put(5), del(5), del(4)},
			Acts: []action{sub(true), wait, put(6), wait, on("cancelunsub", 0), wait}},
		// several changes in one transaction arrive in one watch response: one list is sent, or none
		{Name: "etcd-batched-responses", Etcd: true, Acts: []action{sub(true), batch(put(1), put(2), put(3)), wait, batch(del(1), put(4), del(3)),
			batch(put(4), del(7)), wait, batch(del(2), del(4)), wait, on("cancelunsub", 0), wait}},
		{Name: "etcd-reregister", Etcd: true, Acts: []action{put(3), sub(true), wait, put(3), del(3), put(3), wait, sub(true), put(4), wait, on("cancelunsub", 0), on("cancelunsub", 1), wait}},
	}
}

type gen struct {
	rng interface{ Intn(int) int }
}

func (g gen) script(name string, etcd bool, allowStall bool) script {
	sc := script{Name: name, Etcd: etcd}
	n := 7 + g.rng.Intn(7)
	type fl struct{ reading, cancel, unsub bool }
	var f []fl
	inSlot := 0
	cur := map[int]bool{}
	emit := func(a action) {
		if a.Kind == "wait" {
			inSlot = 0
		} else {
			inSlot++
		}
		sc.Acts = append(sc.Acts, a)
	}
	prelude := true
	change := func() action {
		if etcd && !prelude && g.rng.Intn(4) == 0 {
			// a transaction over the plain keys 5..8
			var ops []action
			for x := 5; x <= 8; x++ {
				if g.rng.Intn(2) == 0 {
					continue
				}
				if cur[x] {
					delete(cur, x)
					ops = append(ops, del(x))
				} else {
					cur[x] = true
					ops = append(ops, put(x))
				}
			}
			if len(ops) > 0 {
				return batch(ops...)
			}
		}
		if etcd {
			x := 1 + g.rng.Intn(4)
			if cur[x] && g.rng.Intn(3) > 0 {
				delete(cur, x)
				return del(x)
			}
			cur[x] = true // re-registering an existing address fails with ErrKeyExists: no event
			return put(x)
		}
		k := g.rng.Intn(4)
		l := []int{}
		for x := 1; x <= 5; x++ {
			if g.rng.Intn(5) < k+1 {
				l = append(l, x)
			}
		}
		return set(l...)
	}
	if etcd {
		for x := 1; x <= 4; x++ {
			if g.rng.Intn(3) == 0 {
				sc.Keys0 = append(sc.Keys0, x)
				cur[x] = true
			}
		}
		for i := g.rng.Intn(3); i > 0; i-- {
			sc.PreWatch = append(sc.PreWatch, change())
		}
		for i := g.rng.Intn(4); i > 0; i-- {
			sc.Between = append(sc.Between, change())
		}
	}
	prelude = false
	emit(change())
	for len(sc.Acts) < n {
		if inSlot >= slotsPerI-1 {
			emit(wait)
			continue
		}
		live := []int{}
		for i, x := range f {
			if !x.unsub {
				live = append(live, i)
			}
		}
		r := g.rng.Intn(100)
		switch {
		case r < 22:
			emit(change())
		case r < 40 && len(f) < 4:
			rd := true
			if allowStall && g.rng.Intn(4) == 0 {
				rd = false
			}
			f = append(f, fl{reading: rd})
			emit(sub(rd))
		case r < 62:
			emit(wait)
		case len(live) == 0:
			emit(change())
		default:
			i := live[g.rng.Intn(len(live))]
			switch q := g.rng.Intn(10); {
			case q < 4:
				f[i].cancel, f[i].unsub = true, true
				emit(on("cancelunsub", i))
			case q < 5:
				f[i].unsub = true
				if !allowStall && !f[i].reading && !f[i].cancel {
					f[i].cancel = true
					emit(on("cancelunsub", i))
				} else {
					emit(on("unsub", i))
				}
			case q < 6:
				// cancel without unsubscribing; stop the reader first so that the
				// dispatch select has a single ready branch
				if f[i].reading && g.rng.Intn(4) > 0 {
					f[i].reading = false
					emit(on("stall", i))
					if inSlot >= slotsPerI-1 {
						emit(wait)
					}
				}
				f[i].cancel = true
				emit(on("cancel", i))
			case q < 8 && allowStall:
				f[i].reading = false
				emit(on("stall", i))
			default:
				f[i].reading = true
				emit(on("read", i))
			}
		}
	}
	// wind down the calcium way and leave one interval for it
	if inSlot > 0 {
		emit(wait)
	}
	for i, x := range f {
		if !x.unsub && g.rng.Intn(3) > 0 {
			if inSlot >= slotsPerI-1 {
				emit(wait)
			}
			emit(on("cancelunsub", i))
		}
	}
	emit(wait)
	return sc
}

// calciumGlue runs the one scenario that needs a real Calcium: the subscriber
// is created by calcium.WatchServiceStatus (Subscribe + a pool goroutine doing
// "<-ctx.Done(); Unsubscribe(id)"), a service is registered through the real
// store, the subscriber's context is cancelled.  Calcium's own helium runs with
// a 15 s push interval, so no tick falls into the scenario.
func calciumGlue(t *testing.T) result {
	w := cw.New(t, cw.Options{})
	acts := []action{sub(true), sub(true), on("stall", 0), put(1), on("cancelunsub", 0), put(2), on("cancelunsub", 1)}
	res := result{Script: script{Name: "calcium-watch-service-status", Etcd: true, Acts: acts}}
	// let calcium's helium consume the initial (empty) list of its stream first
	time.Sleep(1200 * time.Millisecond)
	want := 2 * w.Cfg.GRPCConfig.ServiceDiscoveryPushInterval
	var subs []*subscriber
	defer func() {
		for _, s := range subs {
			s.cancel()
			close(s.quit)
		}
	}()
	watch := func() error {
		// the request context is what calcium.WatchServiceStatus hands to Subscribe; cancelling it is
		// all a client does to go away (calcium's goroutine then calls Unsubscribe)
		ctx, cancel := context.WithCancel(w.Ctx)
		ch, err := w.C.WatchServiceStatus(ctx)
		if err != nil {
			cancel()
			return err
		}
		sb := &subscriber{ch: ch, cancel: cancel, ctlc: make(chan ctl), quit: make(chan struct{}), want: want}
		subs = append(subs, sb)
		go sb.run(true, true)
		return nil
	}
	var unregs []func()
	defer func() {
		for _, u := range unregs {
			go u()
		}
	}()
	snapshot := func(a action) {
		time.Sleep(450 * time.Millisecond)
		got := make([][][]int, len(subs))
		for i, sb := range subs {
			got[i] = sb.take()
		}
		res.Slots = append(res.Slots, slotObs{Act: a, Got: got})
	}
	bFirst := false
	for _, a := range acts {
		switch a.Kind {
		case "sub":
			if err := watch(); err != nil {
				res.Err = err.Error()
				return res
			}
		case "stall":
			subs[a.Sub].setReading(false)
		case "put":
			_, unreg, err := w.RawStore.RegisterService(w.Ctx, addrName(a.Addr), 30*time.Second)
			if err != nil {
				res.Err = err.Error()
				return res
			}
			unregs = append(unregs, unreg)
		case "cancelunsub":
			subs[a.Sub].cancel()
		}
		snapshot(a)
		if a.Kind == "put" && a.Addr == 1 {
			// the push blocks on the stalled subscriber 0: subscriber 1 has its message already
			// iff it comes first in the iteration order of calcium's helium (ids are not visible here)
			bFirst = len(res.Slots[len(res.Slots)-1].Got[1]) > 0
		}
	}
	if bFirst {
		res.Keys = []int{1, 0}
	} else {
		res.Keys = []int{0, 1}
	}
	// final observation: let every reader read, a closed channel is seen at once
	for _, sb := range subs {
		sb.setReading(true)
	}
	deadline := time.Now().Add(3 * time.Second)
	for time.Now().Before(deadline) {
		all := true
		for _, sb := range subs {
			if !sb.sawClosed.Load() {
				all = false
			}
		}
		if all {
			break
		}
		time.Sleep(20 * time.Millisecond)
	}
	for _, sb := range subs {
		c := sb.sawClosed.Load()
		res.FinClosed = append(res.FinClosed, c)
		res.FinUnsub = append(res.FinUnsub, c) // the channel is closed right after the loop received the Unsubscribe
	}
	return res
}

// tickerPeriod measures helium's push period on an otherwise idle instance:
// the spacing of three consecutive tick deliveries to a reading subscriber.
// It guards the calibration above against a systematic deviation: runs whose
// two calibration ticks are not one interval apart are dropped as "machine
// too loaded", which would hide an implementation whose period is wrong.
func tickerPeriod() (d1, d2 time.Duration, ok bool) {
	root, cancel := context.WithCancel(context.Background())
	defer cancel()
	stub := &stubStore{ch: make(chan []string)}
	h := helium.New(root, types.GRPCConfig{ServiceDiscoveryPushInterval: interval}, stub)
	_, ch := h.Subscribe(root)
	var ts []time.Time
	deadline := time.After(5*interval + 2*time.Second)
	for len(ts) < 3 {
		select {
		case <-ch:
			ts = append(ts, time.Now())
		case <-deadline:
			return 0, 0, false
		}
	}
	return ts[1].Sub(ts[0]), ts[2].Sub(ts[1]), true
}

func periodOff(d time.Duration) int {
	switch {
	case d > interval+interval/4:
		return 1
	case d < interval-interval/4:
		return -1
	}
	return 0
}

func TestC27(t *testing.T) {
	r := vh.New(t, "C27", "helium")
	r.Coq("From Verif Require Import Discovery.Helium.", "Helium.case", "Helium.agree", "Helium.ok")
	g := gen{r.Rng}

	var scripts []script
	scripts = append(scripts, corpus()...)
	scripts = append(scripts, corpusEtcd()...)
	nStub := r.N(20, 220)
	nEtcd := r.N(2, 24)
	for i := 0; i < nStub; i++ {
		scripts = append(scripts, g.script(fmt.Sprintf("rand-%d", i), false, i%3 == 0))
	}
	for i := 0; i < nEtcd; i++ {
		scripts = append(scripts, g.script(fmt.Sprintf("rand-etcd-%d", i), true, i%4 == 3))
	}

	// first (it wipes the embedded etcd): the scenario over a real Calcium
	args0 := os.Args
	glue := calciumGlue(t)
	os.Args = args0

	rawCli := embedded.NewCluster(t, "/cw").RandClient() // the (namespaced) client of the one embedded cluster
	os.Args = args0

	// the period probe runs alongside the scripts
	probeDone := make(chan string, 1)
	go func() {
		verdict := ""
		for attempt := 0; attempt < 2; attempt++ {
			d1, d2, ok := tickerPeriod()
			switch {
			case !ok:
				verdict = "no-ticks"
			case periodOff(d1) != 0 && periodOff(d1) == periodOff(d2):
				verdict = fmt.Sprintf("period-off:%dms,%dms", d1.Milliseconds(), d2.Milliseconds())
			default:
				probeDone <- ""
				return
			}
		}
		probeDone <- verdict // the same deviation twice in a row
	}()

	results := make([]result, len(scripts))
	var wg sync.WaitGroup
	runWithRetry := func(i int, m *etcdv3.Mercury) {
		for try := 0; try < 4; try++ {
			if m != nil && try > 0 {
				// a fresh key prefix for the new attempt
				old := m.KV.(*prefixKV)
				m.KV = &prefixKV{KV: old.KV, p: fmt.Sprintf("%s-retry%d", old.p, try)}
			}
			results[i] = runScript(scripts[i], m, rawCli)
			if !results[i].Late {
				return
			}
		}
	}
	// at most 48 scripts at a time: goroutine start-up latencies stay small
	sem := make(chan struct{}, 48)
	for i, sc := range scripts {
		if !sc.Etcd {
			wg.Add(1)
			go func(i int) {
				defer wg.Done()
				sem <- struct{}{}
				defer func() { <-sem }()
				runWithRetry(i, nil)
			}(i)
		}
	}
	// etcd scripts: one embedded cluster (the embedded package allows one per
	// process), one real Mercury per script, each confined to its own key prefix
	// by a renaming meta.KV wrapper, all running in parallel
	for i, sc := range scripts {
		if !sc.Etcd {
			continue
		}
		args := os.Args
		m, err := etcdv3.New(types.Config{MaxConcurrency: 64, Etcd: types.EtcdConfig{Prefix: "/c27"}}, t)
		os.Args = args
		if err != nil {
			t.Fatalf("etcd store: %v", err)
		}
		m.KV = &prefixKV{KV: m.KV, p: fmt.Sprintf("/script-%d", i)}
		wg.Add(1)
		go func(i int) {
			defer wg.Done()
			sem <- struct{}{}
			defer func() { <-sem }()
			runWithRetry(i, m)
		}(i)
	}
	wg.Wait()

	// Runs whose timing could not be validated (the harness itself woke up late)
	// are tried again with little concurrency, within a time budget; what is still
	// late afterwards is dropped below -- never emitted.
	budget := time.Now().Add(time.Duration(r.N(45, 240)) * time.Second)
	for wave := 0; wave < 3 && time.Now().Before(budget); wave++ {
		var again []int
		for i := range scripts {
			if results[i].Late && results[i].Err == "" {
				again = append(again, i)
			}
		}
		if len(again) == 0 {
			break
		}
		r.Count(fmt.Sprintf("retry_wave_%d_scripts=%d", wave+1, len(again)))
		sem2 := make(chan struct{}, 8)
		var wg2 sync.WaitGroup
		for _, i := range again {
			if scripts[i].Etcd {
				continue // its Mercury is bound to the goroutine above; etcd scripts were already retried there
			}
			wg2.Add(1)
			go func(i int) {
				defer wg2.Done()
				sem2 <- struct{}{}
				defer func() { <-sem2 }()
				if time.Now().Before(budget) {
					runWithRetry(i, nil)
				}
			}(i)
		}
		wg2.Wait()
	}

	results = append(results, glue)
	if v := <-probeDone; v != "" {
		// a subscriber reading all the time did not get its pushes one interval apart:
		// reported as the observation "nothing received across a tick" of a one-subscriber script
		r.Count("ticker_probe=" + v)
		acts := []action{set(1), sub(true), wait}
		results = append(results, result{
			Script: script{Name: "ticker-period-probe:" + v, Acts: acts},
			Slots:  []slotObs{{Act: acts[0], Got: [][][]int{}}, {Act: acts[1], Got: [][][]int{{}}}, {Act: acts[2], Got: [][][]int{{}}}},
			Keys:   []int{0}, FinClosed: []bool{false}, FinUnsub: []bool{},
		})
	} else {
		r.Count("ticker_probe=ok")
	}
	dropped := 0
	for _, res := range results {
		if res.Err != "" {
			t.Fatalf("script %s: %s", res.Script.Name, res.Err)
		}
		if res.Late {
			// the harness itself woke up late in all four attempts (machine overloaded):
			// the slot discipline did not hold, so this is not a valid observation
			r.Count("dropped_late_harness_wakeup")
			dropped++
			continue
		}
		exposed := stallExposed(res)
		kinds := map[string]bool{}
		for _, a := range res.Script.Acts {
			kinds[a.Kind] = true
			r.Count("action=" + a.Kind)
		}
		r.Count(fmt.Sprintf("stall_exposed=%v", exposed))
		r.Count(fmt.Sprintf("etcd=%v", res.Script.Etcd))
		r.Count(fmt.Sprintf("subscribers=%d", len(res.Keys)))
		nmsg := 0
		for _, sl := range res.Slots {
			for _, ms := range sl.Got {
				nmsg += len(ms)
			}
		}
		r.Count(fmt.Sprintf("messages>=%d", (nmsg/5)*5))
		tags := map[string]any{"stall_exposed": exposed, "etcd": res.Script.Etcd, "stream_closed": kinds["close"] || res.Script.StartErr}
		r.Add(coqCase(res), res, tags, len(res.Keys) > 0 && nmsg > 0)
	}
	r.Count(fmt.Sprintf("dropped=%d", dropped))
	r.Count(fmt.Sprintf("validated=%d", len(results)-dropped))
	thin := ""
	if dropped*4 > len(results) {
		thin = fmt.Sprintf("THIN COVERAGE: %d of %d runs dropped because the machine was too loaded to keep the slot timing; ", dropped, len(results))
	}
	r.Finish(thin + "corpus (12 stub + 4 etcd scripts incl. the witness of the finding and changes inside the stream's Watch/Get window; one scenario through the real calcium.WatchServiceStatus) then random scripts of 7-13 actions over <=4 subscribers " +
		"(set/put/del | sub | read | stall | cancel | unsub | cancelunsub | wait), every third stub script allows stalled subscribers; " +
		"non-trivial = at least one subscriber and one delivered message")
}
