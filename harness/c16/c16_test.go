package c16

import (
	"context"
	"encoding/json"
	"errors"
	"fmt"
	"os"
	"path/filepath"
	"sort"
	"strconv"
	"sync"
	"testing"
	"time"

	"verifharness/vh"

	"github.com/projecteru2/core/wal"
	"github.com/projecteru2/core/wal/kv"
)

// ---- scripted handlers --------------------------------------------------

const (
	oOk = iota
	oHandleErr
	oNotNeeded
	oCheckErr
	oDecodeErr
	oCrash
)

var outcomeNames = []string{"OOk", "OHandleErr", "ONotNeeded", "OCheckErr", "ODecodeErr", "OCrash"}

type crashSentinel struct{}

type callRec struct {
	typ    int
	token  uint64
	method byte
}

type world struct {
	mu       sync.Mutex
	calls    []callRec
	outcomes map[uint64]int
}

type logItem struct {
	Token uint64
	EncOK bool
}

type handler struct {
	typ int
	w   *world
}

func (h handler) Typ() string { return fmt.Sprintf("t%d", h.typ) }

func (h handler) Encode(item any) ([]byte, error) {
	it := item.(*logItem)
	if !it.EncOK {
		return nil, errors.New("scripted encode failure")
	}
	return []byte(strconv.FormatUint(it.Token, 10)), nil
}

func (h handler) rec(token uint64, m byte) int {
	h.w.mu.Lock()
	defer h.w.mu.Unlock()
	h.w.calls = append(h.w.calls, callRec{h.typ, token, m})
	return h.w.outcomes[token]
}

func (h handler) Decode(bs []byte) (any, error) {
	token, err := strconv.ParseUint(string(bs), 10, 64)
	if err != nil {
		token = 1 << 62 // not a token of this harness: will show up as a foreign call
	}
	if h.rec(token, 'D') == oDecodeErr {
		return nil, errors.New("scripted decode failure")
	}
	return token, nil
}

func (h handler) Check(_ context.Context, item any) (bool, error) {
	switch h.rec(item.(uint64), 'C') {
	case oCheckErr:
		return false, errors.New("scripted check failure")
	case oNotNeeded:
		return false, nil
	}
	return true, nil
}

func (h handler) Handle(_ context.Context, item any) error {
	switch h.rec(item.(uint64), 'H') {
	case oHandleErr:
		return errors.New("scripted handle failure")
	case oCrash:
		panic(crashSentinel{})
	}
	return nil
}

// ---- one history -----------------------------------------------------------

type history struct {
	t       *testing.T
	r       *vh.Run
	path    string
	w       *world
	h       *wal.Hydro
	regs    []int
	commits []wal.Commit // of successful logs, in linearised order
	nextTok uint64
	seq     uint64 // sequence numbers consumed so far (successful Logs + burnt)
	ops     []string
	obs     []string
	desc    []any
	stat    map[string]int
}

const ntypes = 4

func (hs *history) open() {
	h, err := wal.NewHydro(hs.path, 5*time.Second)
	if err != nil {
		hs.t.Fatalf("NewHydro: %v", err)
	}
	hs.h = h
	for _, ty := range hs.regs {
		h.Register(handler{ty, hs.w})
	}
}

// cstr emits a Go string as a Coq string: a literal when it is printable ASCII
// (cheap to parse), the byte-list form of vh.Str otherwise.
func cstr(s string) string {
	for i := 0; i < len(s); i++ {
		if s[i] < 0x20 || s[i] > 0x7e || s[i] == '"' {
			return vh.Str(s)
		}
	}
	return "\"" + s + "\"%string"
}

func nList(vs []int) string {
	s := make([]string, len(vs))
	for i, v := range vs {
		s[i] = fmt.Sprintf("%d%%N", v)
	}
	return vh.List(s)
}

func nn(v uint64) string { return fmt.Sprintf("%d%%N", v) }

func (hs *history) emit(op, ob string, d any) {
	hs.ops = append(hs.ops, op)
	hs.obs = append(hs.obs, ob)
	hs.desc = append(hs.desc, d)
}

type logReq struct {
	typ    int
	token  uint64
	encOK  bool
	commit bool // commit right away (concurrent batches only)
	kind   int
	cm     wal.Commit
	cmOK   bool
}

func (hs *history) doLog(q *logReq) {
	cm, err := hs.h.Log(fmt.Sprintf("t%d", q.typ), &logItem{q.token, q.encOK})
	switch {
	case err == nil:
		q.kind, q.cm = 0, cm
	case !q.encOK && containsInt(hs.regs, q.typ):
		q.kind = 2
	default:
		q.kind = 1
	}
}

func containsInt(l []int, x int) bool {
	for _, y := range l {
		if x == y {
			return true
		}
	}
	return false
}

func (hs *history) emitLog(q *logReq) {
	hs.emit(fmt.Sprintf("(Log %d%%N %s %s)", q.typ, nn(q.token), vh.Bool(q.encOK)),
		fmt.Sprintf("(ObsLog %d%%N)", q.kind),
		map[string]any{"op": "log", "type": q.typ, "token": q.token, "enc_ok": q.encOK, "result": []string{"ok", "unknown-type", "encode-error"}[q.kind]})
	if q.kind == 0 {
		hs.commits = append(hs.commits, q.cm)
		hs.seq++
	}
	hs.stat[fmt.Sprintf("log=%d", q.kind)]++
}

func (hs *history) logOne(typ int, encOK bool) {
	hs.nextTok++
	q := &logReq{typ: typ, token: hs.nextTok, encOK: encOK}
	hs.doLog(q)
	hs.emitLog(q)
}

func (hs *history) commit(k int) {
	err := hs.commits[k]()
	hs.emit(fmt.Sprintf("(Commit %d)", k), fmt.Sprintf("(ObsCommit %s)", vh.Bool(err == nil)),
		map[string]any{"op": "commit", "k": k, "ok": err == nil})
	hs.stat[fmt.Sprintf("commit_ok=%v", err == nil)]++
}

type snapEntry struct {
	Key     string `json:"key"`
	Decodes bool   `json:"value_decodes"`
	ID    uint64 `json:"id"`
	Typ   int    `json:"type"`
	Token uint64 `json:"token"`
}

// reopen closes the Hydro, looks at the file through a bare Lithium (burning
// sequence numbers like a Log that died between NextSequence and Put), and
// opens a new Hydro with handlers for regs.
func (hs *history) reopen(burn int, regs []int) []snapEntry {
	if err := hs.h.Close(); err != nil {
		hs.t.Fatalf("Close: %v", err)
	}
	l := kv.NewLithium()
	if err := l.Open(hs.path, 0600, 5*time.Second); err != nil {
		hs.t.Fatalf("Lithium.Open: %v", err)
	}
	for i := 0; i < burn; i++ {
		if _, err := l.NextSequence(); err != nil {
			hs.t.Fatalf("NextSequence: %v", err)
		}
	}
	snap := []snapEntry{}
	ch, _ := l.Scan([]byte(""))
	for e := range ch {
		if e.Error() != nil {
			hs.t.Fatalf("scan: %v", e.Error())
		}
		k, v := e.Pair()
		var ev wal.HydroEvent
		se := snapEntry{Key: string(k), Typ: 99}
		if err := json.Unmarshal(v, &ev); err == nil {
			se.Decodes = true
			se.ID = ev.ID
			fmt.Sscanf(ev.Type, "t%d", &se.Typ)
			se.Token, _ = strconv.ParseUint(string(ev.Item), 10, 64)
		}
		snap = append(snap, se)
	}
	if err := l.Close(); err != nil {
		hs.t.Fatalf("Lithium.Close: %v", err)
	}
	hs.regs = regs
	hs.seq += uint64(burn)
	hs.open()
	items := make([]string, len(snap))
	for i, s := range snap {
		if s.Decodes {
			items[i] = fmt.Sprintf("(%s, Some (%s, %d%%N, %s))", cstr(s.Key), nn(s.ID), s.Typ, nn(s.Token))
		} else {
			items[i] = fmt.Sprintf("(%s, None)", cstr(s.Key))
		}
	}
	hs.emit(fmt.Sprintf("(Reopen %d%%N %s)", burn, nList(regs)), "(ObsReopen "+vh.List(items)+")",
		map[string]any{"op": "reopen", "burn": burn, "regs": regs, "snapshot": snap})
	hs.stat["reopen"]++
	hs.stat[fmt.Sprintf("burn>0=%v", burn > 0)]++
	return snap
}

// foreign entries.  keysInert: the key is outside /events/ or does not parse as an event id, so any
// value may sit there; keysParsable: a non-canonical spelling of an id (Recover would take a decodable
// value there for an event), used with undecodable values only.
var keysInert = []string{"/events/zz", "/events/", "/events/0000000000000000g", "/events/00000000000000000", "/eventsx", "/other/key", "a", "/events/-1", "/events/1ffffffffffffffff"}
var keysParsable = []string{"/events/1", "/events/00000000000000001", "/events/000000000000002", "/events/A"}
var garbage = []string{"", "{", "not json", "[1,2]", "\x00\x01"}

// inject puts a foreign key into the closed file (Close; Lithium.Put; NewHydro with the same handlers).
func (hs *history) inject(key string, value []byte, decodes bool, typ int, token uint64) {
	if err := hs.h.Close(); err != nil {
		hs.t.Fatalf("Close: %v", err)
	}
	l := kv.NewLithium()
	if err := l.Open(hs.path, 0600, 5*time.Second); err != nil {
		hs.t.Fatalf("Lithium.Open: %v", err)
	}
	if err := l.Put([]byte(key), value); err != nil {
		hs.t.Fatalf("Lithium.Put: %v", err)
	}
	if err := l.Close(); err != nil {
		hs.t.Fatalf("Lithium.Close: %v", err)
	}
	hs.open()
	val := "None"
	if decodes {
		val = fmt.Sprintf("(Some (%d%%N, %s))", typ, nn(token))
	}
	hs.emit(fmt.Sprintf("(Inject (GoStr.s2l %s) %s)", cstr(key), val), "ObsInject",
		map[string]any{"op": "inject", "key": key, "value": string(value), "value_decodes": decodes})
	hs.stat["inject"]++
	hs.stat[fmt.Sprintf("inject_decodable_value=%v", decodes)]++
}

func (hs *history) injectRandom(rng interface{ Intn(int) int }) {
	key := keysInert[rng.Intn(len(keysInert))]
	parsable := rng.Intn(3) == 0
	if parsable {
		key = keysParsable[rng.Intn(len(keysParsable))]
	}
	if !parsable && rng.Intn(2) == 0 {
		// a well-formed event under a key Recover cannot use
		typ, token := rng.Intn(ntypes), uint64(900000+rng.Intn(1000))
		ev := wal.HydroEvent{ID: 7, Type: fmt.Sprintf("t%d", typ), Item: []byte(strconv.FormatUint(token, 10))}
		bs, _ := ev.Encode()
		hs.inject(key, bs, true, typ, token)
		return
	}
	hs.inject(key, []byte(garbage[rng.Intn(len(garbage))]), false, 0, 0)
}

type callObs struct {
	Typ    int    `json:"type"`
	Token  uint64 `json:"token"`
	Stages int    `json:"stages"`
}

func (hs *history) recover(oc map[uint64]int) (crashed bool) {
	hs.w.mu.Lock()
	hs.w.calls = nil
	hs.w.outcomes = oc
	hs.w.mu.Unlock()
	func() {
		defer func() {
			if p := recover(); p != nil {
				if _, ok := p.(crashSentinel); !ok {
					panic(p)
				}
				crashed = true
			}
		}()
		hs.h.Recover(context.Background())
	}()
	// group the method calls per event; the protocol is D, then C, then H
	calls := []callObs{}
	hs.w.mu.Lock()
	for _, c := range hs.w.calls {
		n := len(calls)
		if c.method == 'D' || n == 0 || calls[n-1].Token != c.token || calls[n-1].Typ != c.typ {
			st := 1
			if c.method != 'D' {
				st = 90 // a Check/Handle without Decode: not representable, forces a mismatch
			}
			calls = append(calls, callObs{c.typ, c.token, st})
			continue
		}
		want := map[int]byte{1: 'C', 2: 'H'}[calls[n-1].Stages]
		if c.method == want {
			calls[n-1].Stages++
		} else {
			calls[n-1].Stages = 91
		}
	}
	hs.w.mu.Unlock()
	keys := make([]uint64, 0, len(oc))
	for k := range oc {
		keys = append(keys, k)
	}
	sort.Slice(keys, func(i, j int) bool { return keys[i] < keys[j] })
	ocs := make([]string, len(keys))
	ocd := map[string]string{}
	for i, k := range keys {
		ocs[i] = fmt.Sprintf("(%s, %s)", nn(k), outcomeNames[oc[k]])
		ocd[strconv.FormatUint(k, 10)] = outcomeNames[oc[k]]
		hs.stat["outcome="+outcomeNames[oc[k]]]++
	}
	cs := make([]string, len(calls))
	for i, c := range calls {
		cs[i] = fmt.Sprintf("(%d%%N, %s, %d%%N)", c.Typ, nn(c.Token), c.Stages)
	}
	hs.emit("(Recover "+vh.List(ocs)+")", "(ObsRecover "+vh.List(cs)+")",
		map[string]any{"op": "recover", "outcomes": ocd, "handler_calls": calls, "panicked": crashed})
	hs.stat["recover"]++
	hs.stat[fmt.Sprintf("recover_calls=%d", imin(len(calls), 6))]++
	if len(calls) >= 64 {
		hs.stat["recover_calls>=64"]++
	}
	return crashed
}

func imin(a, b int) int {
	if a < b {
		return a
	}
	return b
}

// concurrent loggers: the ids (read from the file right afterwards) give the linearisation
func (hs *history) concurrentBatch(rng interface{ Intn(int) int }) {
	g := 2 + rng.Intn(3)
	per := 1 + rng.Intn(3)
	reqs := make([][]*logReq, g)
	for i := range reqs {
		for j := 0; j < per; j++ {
			hs.nextTok++
			typ := rng.Intn(ntypes)
			reqs[i] = append(reqs[i], &logReq{typ: typ, token: hs.nextTok, encOK: rng.Intn(10) != 0, commit: rng.Intn(4) == 0})
		}
	}
	var wg sync.WaitGroup
	for i := range reqs {
		wg.Add(1)
		go func(qs []*logReq) {
			defer wg.Done()
			for _, q := range qs {
				hs.doLog(q)
				if q.kind == 0 && q.commit {
					q.cmOK = q.cm() == nil
				}
			}
		}(reqs[i])
	}
	wg.Wait()
	// look at the file: survivors carry their ids
	before := len(hs.ops)
	snap := hs.reopen(0, hs.regs)
	reopenOp, reopenObs, reopenDesc := hs.ops[before], hs.obs[before], hs.desc[before]
	hs.ops, hs.obs, hs.desc = hs.ops[:before], hs.obs[:before], hs.desc[:before]
	idOf := map[uint64]uint64{}
	for _, s := range snap {
		idOf[s.Token] = s.ID
	}
	var known, unknown, failed []*logReq
	byID := map[uint64]*logReq{}
	for _, qs := range reqs {
		for _, q := range qs {
			switch id, ok := idOf[q.token]; {
			case q.kind != 0:
				failed = append(failed, q)
			case ok:
				known = append(known, q)
				byID[id] = q
			default:
				unknown = append(unknown, q)
			}
		}
	}
	// The batch consumed one sequence number per successful Log, starting after hs.seq.
	// Survivors carry their id; committed events left no trace and own the remaining ids of
	// the window (any assignment among them is observationally the same).
	m := uint64(len(known) + len(unknown))
	var order []*logReq
	placed := map[*logReq]bool{}
	ui := 0
	for id := hs.seq + 1; id <= hs.seq+m; id++ {
		if q, ok := byID[id]; ok {
			order = append(order, q)
			placed[q] = true
		} else if ui < len(unknown) {
			order = append(order, unknown[ui])
			ui++
		}
	}
	sort.Slice(known, func(i, j int) bool { return idOf[known[i].token] < idOf[known[j].token] })
	for _, q := range known { // an id outside the window: emitted anyway, the model will disagree
		if !placed[q] {
			order = append(order, q)
		}
	}
	order = append(order, unknown[ui:]...)
	for _, q := range failed {
		hs.emitLog(q)
	}
	base := len(hs.commits)
	for _, q := range order {
		hs.emitLog(q)
	}
	for i, q := range order {
		if q.commit {
			hs.emit(fmt.Sprintf("(Commit %d)", base+i), fmt.Sprintf("(ObsCommit %s)", vh.Bool(q.cmOK)),
				map[string]any{"op": "commit", "k": base + i, "ok": q.cmOK, "concurrent": true})
		}
	}
	hs.ops, hs.obs, hs.desc = append(hs.ops, reopenOp), append(hs.obs, reopenObs), append(hs.desc, reopenDesc)
	hs.stat["concurrent_batch"]++
}

func subset(rng interface{ Intn(int) int }, full bool) []int {
	var s []int
	for i := 0; i < ntypes; i++ {
		if full || rng.Intn(5) != 0 {
			s = append(s, i)
		}
	}
	return s
}

type script func(hs *history)

func runHistory(t *testing.T, r *vh.Run, dir string, idx int, regs []int, body script, tags map[string]any) {
	path := filepath.Join(dir, fmt.Sprintf("wal-%d.db", idx))
	hs := &history{t: t, r: r, path: path, w: &world{outcomes: map[uint64]int{}}, regs: regs, stat: map[string]int{}}
	initRegs := append([]int{}, regs...)
	hs.open()
	body(hs)
	// final look at the file
	hs.reopen(0, hs.regs)
	_ = hs.h.Close()
	_ = os.Remove(path)
	term := fmt.Sprintf("(mkCase %s %s %s)", nList(initRegs), vh.List(hs.ops), vh.List(hs.obs))
	for k, v := range hs.stat {
		for i := 0; i < v; i++ {
			r.Count(k)
		}
	}
	r.Count(fmt.Sprintf("ops=%d", (len(hs.ops)/10)*10))
	nontrivial := hs.stat["recover"] > 0 && hs.stat["log=0"] > 0
	r.Add(term, map[string]any{"initial_regs": initRegs, "steps": hs.desc}, tags, nontrivial)
}

func randomBody(r *vh.Run, nops int, concurrent bool, inject bool) script {
	return func(hs *history) {
		rng := r.Rng
		mustReopen := false
		for i := 0; i < nops; i++ {
			x := rng.Intn(100)
			switch {
			case !mustReopen && x >= 96 && inject:
				hs.injectRandom(rng)
			case mustReopen || x < 10:
				burn := 0
				if rng.Intn(3) == 0 {
					burn = 1 + rng.Intn(3)
				}
				hs.reopen(burn, subset(rng, rng.Intn(2) == 0))
				mustReopen = false
			case x < 50:
				hs.logOne(rng.Intn(ntypes), rng.Intn(12) != 0)
			case x < 68:
				if len(hs.commits) == 0 {
					hs.logOne(rng.Intn(ntypes), true)
					continue
				}
				k := len(hs.commits) - 1 - rng.Intn(imin(len(hs.commits), 6))
				hs.commit(k)
			case x < 90:
				oc := map[uint64]int{}
				for tok := uint64(1); tok <= hs.nextTok; tok++ {
					switch y := rng.Intn(20); {
					case y < 9:
					case y < 12:
						oc[tok] = oHandleErr
					case y < 15:
						oc[tok] = oNotNeeded
					case y < 17:
						oc[tok] = oCheckErr
					case y < 19:
						oc[tok] = oDecodeErr
					default:
						if rng.Intn(3) == 0 {
							oc[tok] = oCrash
						}
					}
				}
				if hs.recover(oc) {
					mustReopen = true
				}
			default:
				if concurrent {
					hs.concurrentBatch(rng)
				} else {
					hs.logOne(rng.Intn(ntypes), true)
				}
			}
		}
		if mustReopen {
			hs.reopen(0, hs.regs)
		}
	}
}

// pendingScript leaves exactly n events pending at the first Recover (three extra ones are
// committed), lets a third of them fail so that the second Recover still sees many, then recovers
// once more after a restart.
func pendingScript(n int) script {
	return func(hs *history) {
		for i := 0; i < n+3; i++ {
			hs.logOne(i%ntypes, true)
		}
		hs.commit(0)
		hs.commit(n / 2)
		hs.commit(n + 2)
		oc := map[uint64]int{}
		for tok := uint64(1); tok <= uint64(n+3); tok++ {
			switch tok % 3 {
			case 0:
				oc[tok] = oHandleErr
			case 1:
				if tok%2 == 0 {
					oc[tok] = oCheckErr
				}
			}
		}
		hs.recover(oc)
		hs.recover(map[uint64]int{uint64(n): oNotNeeded})
		hs.reopen(0, []int{0, 1, 2, 3})
		hs.recover(nil)
	}
}

// largeBody: 64-200 events logged, a few committed, recoveries with mostly failing handlers
func largeBody(r *vh.Run) script {
	return func(hs *history) {
		rng := r.Rng
		n := 64 + rng.Intn(137)
		for i := 0; i < n; i++ {
			hs.logOne(rng.Intn(ntypes), true)
		}
		for i := 0; i < rng.Intn(6); i++ {
			hs.commit(rng.Intn(n))
		}
		for round := 0; round < 2+rng.Intn(2); round++ {
			oc := map[uint64]int{}
			for tok := uint64(1); tok <= hs.nextTok; tok++ {
				switch y := rng.Intn(10); {
				case y < 5:
					oc[tok] = oHandleErr
				case y < 6:
					oc[tok] = oCheckErr
				case y < 7:
					oc[tok] = oDecodeErr
				case y < 8:
					oc[tok] = oNotNeeded
				}
			}
			hs.recover(oc)
			if rng.Intn(2) == 0 {
				hs.reopen(rng.Intn(2), subset(rng, true))
			}
		}
	}
}

func corpus() []script {
	all := []int{0, 1, 2, 3}
	return []script{
		// nothing logged
		func(hs *history) { hs.recover(nil) },
		// logged, recovered ok, recovered again: handlers called once
		func(hs *history) { hs.logOne(0, true); hs.logOne(1, true); hs.recover(nil); hs.recover(nil) },
		// committed events are not replayed; double commit is harmless
		func(hs *history) {
			hs.logOne(0, true)
			hs.logOne(0, true)
			hs.commit(0)
			hs.commit(0)
			hs.recover(nil)
		},
		// every outcome once; failed ones stay and are replayed again, in id order
		func(hs *history) {
			for i := 0; i < 6; i++ {
				hs.logOne(i%ntypes, true)
			}
			hs.recover(map[uint64]int{1: oOk, 2: oHandleErr, 3: oNotNeeded, 4: oCheckErr, 5: oDecodeErr, 6: oOk})
			hs.recover(nil)
		},
		// ids continue after close/reopen; stale commit closures fail and delete nothing
		func(hs *history) {
			hs.logOne(0, true)
			hs.logOne(1, true)
			hs.reopen(0, all)
			hs.commit(0)
			hs.logOne(2, true)
			hs.commit(2)
			hs.recover(nil)
		},
		// a Log that died between NextSequence and Put only skips an id
		func(hs *history) { hs.logOne(0, true); hs.reopen(2, all); hs.logOne(0, true); hs.reopen(1, all); hs.logOne(3, true) },
		// handler missing after restart: event skipped, kept, replayed once the handler is back
		func(hs *history) {
			hs.logOne(2, true)
			hs.logOne(0, true)
			hs.reopen(0, []int{0, 1})
			hs.recover(nil)
			hs.reopen(0, all)
			hs.recover(nil)
		},
		// unknown type / encode failure consume no id
		func(hs *history) {
			hs.reopen(0, []int{1})
			hs.logOne(0, true)
			hs.logOne(1, false)
			hs.logOne(1, true)
		},
		// process dies inside a handler: the rest is not handled, the event stays, next recovery replays it
		func(hs *history) {
			for i := 0; i < 4; i++ {
				hs.logOne(0, true)
			}
			hs.recover(map[uint64]int{2: oCrash})
			hs.reopen(0, all)
			hs.recover(nil)
		},
		// more than 16 events: hexadecimal key order = id order
		func(hs *history) {
			for i := 0; i < 40; i++ {
				hs.logOne(i%ntypes, true)
			}
			hs.commit(7)
			hs.commit(16)
			hs.recover(map[uint64]int{10: oHandleErr, 17: oNotNeeded, 33: oCheckErr})
			hs.recover(nil)
		},
		// many pending events at a recovery (a scan that works in batches must not repeat or drop
		// the entries at a batch boundary): exactly 63, 64, 65, 128, 129 pending
		pendingScript(63), pendingScript(64), pendingScript(65), pendingScript(128), pendingScript(129),
		// foreign and corrupt entries under /events/: skipped by Recover, never deleted, ids and replay unaffected
		func(hs *history) {
			hs.logOne(0, true)
			hs.inject("/events/zz", []byte("not json"), false, 0, 0)
			hs.inject("/events/1", []byte("{"), false, 0, 0) // another spelling of id 1, value does not decode
			ev := wal.HydroEvent{ID: 7, Type: "t1", Item: []byte("900001")}
			bs, _ := ev.Encode()
			hs.inject("/events/0000000000000000g", bs, true, 1, 900001) // decodable value, key does not parse
			hs.inject("/other/key", bs, true, 1, 900001)
			hs.logOne(1, true)
			hs.recover(map[uint64]int{1: oHandleErr})
			hs.commit(1)
			hs.reopen(1, all)
			hs.logOne(2, true)
			hs.recover(nil)
		},
		// many ids burnt: crosses 0xff
		func(hs *history) {
			hs.logOne(0, true)
			for i := 0; i < 90; i++ {
				hs.reopen(3, all)
			}
			hs.logOne(1, true)
			hs.logOne(2, true)
			hs.recover(nil)
		},
	}
}

func TestC16(t *testing.T) {
	r := vh.New(t, "C16", "wal")
	r.Coq("From Verif Require Import Wal.Model.", "Model.case", "Model.agree", "Model.ok")
	dir := t.TempDir()
	if st, err := os.Stat("/dev/shm"); err == nil && st.IsDir() {
		if d, err := os.MkdirTemp("/dev/shm", "verif-c16-"); err == nil {
			dir = d
			defer os.RemoveAll(d)
		}
	}
	idx := 0
	all := []int{0, 1, 2, 3}
	for _, sc := range corpus() {
		runHistory(t, r, dir, idx, all, sc, map[string]any{"kind": "corpus"})
		idx++
	}
	n := r.N(220, 4000)
	for i := 0; i < n; i++ {
		nops := 5 + r.Rng.Intn(36)
		conc := i%3 == 0
		runHistory(t, r, dir, idx, subset(r.Rng, r.Rng.Intn(3) != 0), randomBody(r, nops, conc, i%2 == 1),
			map[string]any{"kind": "random", "concurrent": conc, "foreign_keys": i%2 == 1})
		idx++
	}
	nl := r.N(6, 60)
	for i := 0; i < nl; i++ {
		runHistory(t, r, dir, idx, all, largeBody(r), map[string]any{"kind": "large"})
		idx++
	}
	r.Finish("corpus (each handler outcome, commit/double commit, restart, crashed Log, missing handler, handler panic, >16 and >255 ids, exactly 63/64/65/128/129 events pending at a recovery, foreign and corrupt entries) then random histories of 5-40 operations over 4 event types on a real bbolt file: Log (incl. unknown type / Encode failure), Commit (incl. stale closures of a closed instance), close+reopen with 0-3 burnt sequence numbers and a random handler set, Recover with scripted per-event outcomes (ok, handle error, not needed, check error, decode error, panic), batches of 2-4 concurrent loggers linearised by the ids found in the file; foreign writes of corrupt / foreign entries in half of the histories, and a few large histories with 64-200 pending events at a recovery; every history ends with a scan of the file; non-trivial = at least one successful Log and one Recover")

	// ---- key codec ----
	k := vh.New(t, "C16", "keys")
	k.Coq("From Verif Require Import Wal.Model.", "Model.kcase", "Model.kagree", "Model.kok")
	ids := []uint64{0, 1, 9, 10, 15, 16, 17, 255, 256, 4095, 4096, 1<<32 - 1, 1 << 32, 1<<63 - 1, 1 << 63, 1<<64 - 1, 0xabcdef, 0x0123456789abcdef}
	kn := k.N(300, 5000)
	for i := 0; i < kn; i++ {
		v := k.Rng.Uint64() >> uint(k.Rng.Intn(64))
		ids = append(ids, v)
	}
	for _, id := range ids {
		key := string(wal.HydroEvent{ID: id}.Key())
		k.Count(fmt.Sprintf("hexdigits=%d", len(strconv.FormatUint(id, 16))))
		k.Add(fmt.Sprintf("(mkK %s %s)", nn(id), cstr(key)), map[string]any{"id": id, "key": key}, nil, id != 0)
	}
	k.Finish("HydroEvent.Key() for boundary ids and random ids of every bit length; the model's key must equal it byte for byte and the model's parseHydroEventID must invert it")
}
