package cw

import (
	"context"

	"github.com/projecteru2/core/resource/cobalt"
	"github.com/projecteru2/core/resource/plugins"
	plugintypes "github.com/projecteru2/core/resource/plugins/types"
)

// PluginW intercepts the resource plugin's write of a node's usage made INSIDE the resource manager (cobalt), so
// that a fault can hit the second step of a two-step manager call (Realloc = CalculateRealloc, then
// SetNodeResourceUsage; Alloc = CalculateDeploy, then SetNodeResourceUsage; ...).  The call is logged with Party
// "plugin" and Method "Plugin.SetNodeResourceUsage".  Only built when Options.PluginFaults is set.
type PluginW struct {
	plugins.Plugin
	ic *Interceptor
}

func (p *PluginW) SetNodeResourceUsage(ctx context.Context, nodename string, resource plugintypes.NodeResource, resourceRequest plugintypes.NodeResourceRequest, workloadsResource []plugintypes.WorkloadResource, delta bool, incr bool) (*plugintypes.SetNodeResourceUsageResponse, error) {
	idx, err := p.ic.Before("plugin", "Plugin.SetNodeResourceUsage", nodename, nodename, "")
	if err != nil {
		return nil, err
	}
	r, err := p.Plugin.SetNodeResourceUsage(ctx, nodename, resource, resourceRequest, workloadsResource, delta, incr)
	p.ic.After(idx, err)
	return r, err
}

// wrapPlugins builds a second cobalt manager over the same plugin instances, each wrapped in a PluginW.
func (w *World) wrapPlugins() {
	mgr, ok := w.RawRmgr.(*cobalt.Manager)
	if !ok {
		w.T.Fatalf("cw: resource manager is %T, not *cobalt.Manager", w.RawRmgr)
	}
	m2, err := cobalt.New(w.Cfg)
	if err != nil {
		w.T.Fatalf("cw: cobalt.New: %v", err)
	}
	for _, p := range mgr.GetPlugins() {
		m2.AddPlugins(&PluginW{Plugin: p, ic: w.IC})
	}
	w.Rmgr = &RmgrW{Manager: m2, ic: w.IC}
}
