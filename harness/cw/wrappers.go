package cw

import (
	"context"
	"fmt"
	"sort"
	"strings"
	"sync"
	"time"

	enginetypes "github.com/projecteru2/core/engine/types"
	"github.com/projecteru2/core/lock"
	"github.com/projecteru2/core/resource"
	plugintypes "github.com/projecteru2/core/resource/plugins/types"
	resourcetypes "github.com/projecteru2/core/resource/types"
	"github.com/projecteru2/core/store"
	"github.com/projecteru2/core/types"
	"github.com/projecteru2/core/wal"
)

func joinSorted(xs []string) string {
	ys := append([]string(nil), xs...)
	sort.Strings(ys)
	return strings.Join(ys, ",")
}

// ---------------------------------------------------------------- store

// StoreW intercepts the store.Store methods of DESIGN Appendix A; every other
// method passes through to the embedded real store.
type StoreW struct {
	store.Store
	ic *Interceptor
	lk *LockLog
}

func (s *StoreW) do(method, target, node, arg string, f func() error) error {
	idx, err := s.ic.Before("store", method, target, node, arg)
	if err != nil {
		return err
	}
	err = f()
	s.ic.After(idx, err)
	return err
}

func (s *StoreW) AddPod(ctx context.Context, name, desc string) (r *types.Pod, err error) {
	err = s.do("AddPod", name, "", "", func() (e error) { r, e = s.Store.AddPod(ctx, name, desc); return })
	return
}
func (s *StoreW) GetPod(ctx context.Context, name string) (r *types.Pod, err error) {
	err = s.do("GetPod", name, "", "", func() (e error) { r, e = s.Store.GetPod(ctx, name); return })
	return
}
func (s *StoreW) RemovePod(ctx context.Context, name string) error {
	return s.do("RemovePod", name, "", "", func() error { return s.Store.RemovePod(ctx, name) })
}
func (s *StoreW) GetAllPods(ctx context.Context) (r []*types.Pod, err error) {
	err = s.do("GetAllPods", "", "", "", func() (e error) { r, e = s.Store.GetAllPods(ctx); return })
	return
}
func (s *StoreW) AddNode(ctx context.Context, o *types.AddNodeOptions) (r *types.Node, err error) {
	err = s.do("AddNode", o.Nodename, o.Nodename, o.Podname, func() (e error) { r, e = s.Store.AddNode(ctx, o); return })
	return
}
func (s *StoreW) RemoveNode(ctx context.Context, n *types.Node) error {
	return s.do("RemoveNode", n.Name, n.Name, "", func() error { return s.Store.RemoveNode(ctx, n) })
}
func (s *StoreW) GetNode(ctx context.Context, name string) (r *types.Node, err error) {
	err = s.do("GetNode", name, name, "", func() (e error) { r, e = s.Store.GetNode(ctx, name); return })
	return
}
func (s *StoreW) GetNodes(ctx context.Context, names []string) (r []*types.Node, err error) {
	err = s.do("GetNodes", joinSorted(names), "", "", func() (e error) { r, e = s.Store.GetNodes(ctx, names); return })
	return
}
func (s *StoreW) GetNodesByPod(ctx context.Context, nf *types.NodeFilter, opts ...store.Option) (r []*types.Node, err error) {
	err = s.do("GetNodesByPod", nf.Podname, "", "", func() (e error) { r, e = s.Store.GetNodesByPod(ctx, nf, opts...); return })
	return
}
func (s *StoreW) UpdateNodes(ctx context.Context, ns ...*types.Node) error {
	names := []string{}
	for _, n := range ns {
		names = append(names, n.Name)
	}
	t := joinSorted(names)
	node := ""
	if len(ns) == 1 {
		node = ns[0].Name
	}
	return s.do("UpdateNodes", t, node, "", func() error { return s.Store.UpdateNodes(ctx, ns...) })
}
func (s *StoreW) SetNodeStatus(ctx context.Context, n *types.Node, ttl int64) error {
	return s.do("SetNodeStatus", n.Name, n.Name, fmt.Sprint(ttl), func() error { return s.Store.SetNodeStatus(ctx, n, ttl) })
}
func (s *StoreW) GetNodeStatus(ctx context.Context, name string) (r *types.NodeStatus, err error) {
	err = s.do("GetNodeStatus", name, name, "", func() (e error) { r, e = s.Store.GetNodeStatus(ctx, name); return })
	return
}
func (s *StoreW) AddWorkload(ctx context.Context, w *types.Workload, p *types.Processing) error {
	arg := ""
	if p != nil {
		arg = "decr"
	}
	return s.do("AddWorkload", w.ID, w.Nodename, arg, func() error { return s.Store.AddWorkload(ctx, w, p) })
}
func (s *StoreW) UpdateWorkload(ctx context.Context, w *types.Workload) error {
	return s.do("UpdateWorkload", w.ID, w.Nodename, "", func() error { return s.Store.UpdateWorkload(ctx, w) })
}
func (s *StoreW) RemoveWorkload(ctx context.Context, w *types.Workload) error {
	return s.do("RemoveWorkload", w.ID, w.Nodename, "", func() error { return s.Store.RemoveWorkload(ctx, w) })
}
func (s *StoreW) GetWorkload(ctx context.Context, id string) (r *types.Workload, err error) {
	err = s.do("GetWorkload", id, "", "", func() (e error) { r, e = s.Store.GetWorkload(ctx, id); return })
	return
}
func (s *StoreW) GetWorkloads(ctx context.Context, ids []string) (r []*types.Workload, err error) {
	err = s.do("GetWorkloads", joinSorted(ids), "", strings.Join(ids, ","), func() (e error) { r, e = s.Store.GetWorkloads(ctx, ids); return })
	return
}
func (s *StoreW) ListWorkloads(ctx context.Context, app, entry, node string, limit int64, labels map[string]string) (r []*types.Workload, err error) {
	err = s.do("ListWorkloads", app+"/"+entry+"/"+node, node, "", func() (e error) {
		r, e = s.Store.ListWorkloads(ctx, app, entry, node, limit, labels)
		return
	})
	return
}
func (s *StoreW) ListNodeWorkloads(ctx context.Context, node string, labels map[string]string) (r []*types.Workload, err error) {
	err = s.do("ListNodeWorkloads", node, node, "", func() (e error) { r, e = s.Store.ListNodeWorkloads(ctx, node, labels); return })
	return
}
func (s *StoreW) SetWorkloadStatus(ctx context.Context, st *types.StatusMeta, ttl int64) error {
	return s.do("SetWorkloadStatus", st.ID, st.Nodename, fmt.Sprint(ttl), func() error { return s.Store.SetWorkloadStatus(ctx, st, ttl) })
}
func (s *StoreW) GetDeployStatus(ctx context.Context, app, entry string) (r map[string]int, err error) {
	err = s.do("GetDeployStatus", app+"/"+entry, "", "", func() (e error) { r, e = s.Store.GetDeployStatus(ctx, app, entry); return })
	return
}
func (s *StoreW) CreateProcessing(ctx context.Context, p *types.Processing, count int) error {
	return s.do("CreateProcessing", p.Nodename, p.Nodename, fmt.Sprint(count), func() error { return s.Store.CreateProcessing(ctx, p, count) })
}
func (s *StoreW) DeleteProcessing(ctx context.Context, p *types.Processing) error {
	return s.do("DeleteProcessing", p.Nodename, p.Nodename, "", func() error { return s.Store.DeleteProcessing(ctx, p) })
}

// CreateLock returns a wrapped lock whose Lock/TryLock/Unlock are intercepted
// (party "lock") and recorded in the LockLog.
func (s *StoreW) CreateLock(key string, ttl time.Duration) (lock.DistributedLock, error) {
	var l lock.DistributedLock
	err := s.do("CreateLock", key, "", "", func() (e error) { l, e = s.Store.CreateLock(key, ttl); return })
	if err != nil {
		return l, err
	}
	return &LockW{DistributedLock: l, key: key, ic: s.ic, lk: s.lk}, nil
}

// ---------------------------------------------------------------- locks

// LockEvent is one Lock/TryLock/Unlock call on a wrapped lock.
type LockEvent struct {
	Seq  int
	Key  string
	Op   string // Lock | TryLock | Unlock
	OK   bool   // the call returned nil
	Gid  uint64
	Done bool // false: recorded when the call started (Lock may block); true: when it returned
}

// LockLog records lock events of one Calcium instance in real-time order.
type LockLog struct {
	mu  sync.Mutex
	evs []LockEvent
}

func (l *LockLog) add(e LockEvent) {
	l.mu.Lock()
	e.Seq = len(l.evs)
	l.evs = append(l.evs, e)
	l.mu.Unlock()
}

// Events returns a copy of the recorded events.
func (l *LockLog) Events() []LockEvent {
	l.mu.Lock()
	defer l.mu.Unlock()
	return append([]LockEvent(nil), l.evs...)
}

// Reset clears the log.
func (l *LockLog) Reset() { l.mu.Lock(); l.evs = nil; l.mu.Unlock() }

// LockW wraps a distributed lock.
type LockW struct {
	lock.DistributedLock
	key string
	ic  *Interceptor
	lk  *LockLog
}

func (l *LockW) Lock(ctx context.Context) (context.Context, error) {
	idx, err := l.ic.Before("lock", "Lock", l.key, "", "")
	if err != nil {
		return ctx, err
	}
	l.lk.add(LockEvent{Key: l.key, Op: "Lock", Gid: goid()})
	c, err := l.DistributedLock.Lock(ctx)
	l.ic.After(idx, err)
	l.lk.add(LockEvent{Key: l.key, Op: "Lock", OK: err == nil, Gid: goid(), Done: true})
	return c, err
}
func (l *LockW) TryLock(ctx context.Context) (context.Context, error) {
	idx, err := l.ic.Before("lock", "TryLock", l.key, "", "")
	if err != nil {
		return ctx, err
	}
	c, err := l.DistributedLock.TryLock(ctx)
	l.ic.After(idx, err)
	l.lk.add(LockEvent{Key: l.key, Op: "TryLock", OK: err == nil, Gid: goid(), Done: true})
	return c, err
}
func (l *LockW) Unlock(ctx context.Context) error {
	idx, err := l.ic.Before("lock", "Unlock", l.key, "", "")
	if err != nil {
		return err
	}
	err = l.DistributedLock.Unlock(ctx)
	l.ic.After(idx, err)
	l.lk.add(LockEvent{Key: l.key, Op: "Unlock", OK: err == nil, Gid: goid(), Done: true})
	return err
}

// ---------------------------------------------------------------- resource manager

// RmgrW intercepts the resource.Manager methods of DESIGN Appendix A.
type RmgrW struct {
	resource.Manager
	ic *Interceptor
}

func (m *RmgrW) do(method, node, arg string, f func() error) error {
	idx, err := m.ic.Before("rmgr", method, node, node, arg)
	if err != nil {
		return err
	}
	err = f()
	m.ic.After(idx, err)
	return err
}

func (m *RmgrW) AddNode(ctx context.Context, node string, r resourcetypes.Resources, info *enginetypes.Info) (res resourcetypes.Resources, err error) {
	err = m.do("AddNode", node, "", func() (e error) { res, e = m.Manager.AddNode(ctx, node, r, info); return })
	return
}
func (m *RmgrW) RemoveNode(ctx context.Context, node string) error {
	return m.do("RemoveNode", node, "", func() error { return m.Manager.RemoveNode(ctx, node) })
}
func (m *RmgrW) GetNodesDeployCapacity(ctx context.Context, nodes []string, r resourcetypes.Resources) (res map[string]*plugintypes.NodeDeployCapacity, total int, err error) {
	idx, err := m.ic.Before("rmgr", "GetNodesDeployCapacity", joinSorted(nodes), "", "")
	if err != nil {
		return nil, 0, err
	}
	res, total, err = m.Manager.GetNodesDeployCapacity(ctx, nodes, r)
	m.ic.After(idx, err)
	return
}
func (m *RmgrW) SetNodeResourceCapacity(ctx context.Context, node string, a, b resourcetypes.Resources, delta, incr bool) (x, y resourcetypes.Resources, err error) {
	err = m.do("SetNodeResourceCapacity", node, fmt.Sprintf("delta=%v,incr=%v", delta, incr), func() (e error) {
		x, y, e = m.Manager.SetNodeResourceCapacity(ctx, node, a, b, delta, incr)
		return
	})
	return
}
func (m *RmgrW) SetNodeResourceUsage(ctx context.Context, node string, a, b resourcetypes.Resources, ws []resourcetypes.Resources, delta, incr bool) (x, y resourcetypes.Resources, err error) {
	err = m.do("SetNodeResourceUsage", node, fmt.Sprintf("delta=%v,incr=%v", delta, incr), func() (e error) {
		x, y, e = m.Manager.SetNodeResourceUsage(ctx, node, a, b, ws, delta, incr)
		return
	})
	return
}
func (m *RmgrW) GetNodeResourceInfo(ctx context.Context, node string, ws []*types.Workload, fix bool) (c, u resourcetypes.Resources, d []string, err error) {
	err = m.do("GetNodeResourceInfo", node, fmt.Sprintf("fix=%v", fix), func() (e error) {
		c, u, d, e = m.Manager.GetNodeResourceInfo(ctx, node, ws, fix)
		return
	})
	return
}
func (m *RmgrW) Alloc(ctx context.Context, node string, n int, r resourcetypes.Resources) (a, b []resourcetypes.Resources, err error) {
	err = m.do("Alloc", node, fmt.Sprint(n), func() (e error) { a, b, e = m.Manager.Alloc(ctx, node, n, r); return })
	return
}
func (m *RmgrW) RollbackAlloc(ctx context.Context, node string, rs []resourcetypes.Resources) error {
	return m.do("RollbackAlloc", node, fmt.Sprint(len(rs)), func() error { return m.Manager.RollbackAlloc(ctx, node, rs) })
}
func (m *RmgrW) Realloc(ctx context.Context, node string, o, r resourcetypes.Resources) (a, b, c resourcetypes.Resources, err error) {
	err = m.do("Realloc", node, "", func() (e error) { a, b, c, e = m.Manager.Realloc(ctx, node, o, r); return })
	return
}
func (m *RmgrW) RollbackRealloc(ctx context.Context, node string, r resourcetypes.Resources) error {
	return m.do("RollbackRealloc", node, "", func() error { return m.Manager.RollbackRealloc(ctx, node, r) })
}
func (m *RmgrW) Remap(ctx context.Context, node string, ws []*types.Workload) (r map[string]resourcetypes.Resources, err error) {
	err = m.do("Remap", node, "", func() (e error) { r, e = m.Manager.Remap(ctx, node, ws); return })
	return
}

// ---------------------------------------------------------------- WAL

// WalEntry is a logged event tracked by the WAL wrapper.
type WalEntry struct {
	N         int    // ordinal of the Log call among successful Log calls
	Type      string // event type
	Target    string // workload id / node names / processing node
	Committed bool
}

// WalW intercepts Log (target = event type, node/target extracted from the
// item) and the returned Commit (method "Commit", same target); Recover is
// intercepted as one call.  It also tracks which logged entries are open.
type WalW struct {
	wal.WAL
	ic  *Interceptor
	mu  sync.Mutex
	ent []*WalEntry
}

func walItem(item any) (target, node string) {
	switch v := item.(type) {
	case string:
		return v, ""
	case *types.Workload:
		return v.ID, v.Nodename
	case *types.Processing:
		return v.Nodename, v.Nodename
	case []*types.Node:
		names := []string{}
		for _, n := range v {
			names = append(names, n.Name)
		}
		return joinSorted(names), ""
	}
	return "", ""
}

func (w *WalW) Log(typ string, item any) (wal.Commit, error) {
	it, node := walItem(item)
	idx, err := w.ic.Before("wal", "Log", typ, node, it)
	if err != nil {
		return nil, err
	}
	commit, err := w.WAL.Log(typ, item)
	w.ic.After(idx, err)
	if err != nil {
		return commit, err
	}
	w.mu.Lock()
	e := &WalEntry{N: len(w.ent), Type: typ, Target: it}
	w.ent = append(w.ent, e)
	w.mu.Unlock()
	return func() error {
		i, err := w.ic.Before("wal", "Commit", typ, node, it)
		if err != nil {
			return err
		}
		err = commit()
		w.ic.After(i, err)
		if err == nil {
			w.mu.Lock()
			e.Committed = true
			w.mu.Unlock()
		}
		return err
	}, nil
}

func (w *WalW) Recover(ctx context.Context) {
	idx, err := w.ic.Before("wal", "Recover", "", "", "")
	if err != nil {
		return
	}
	w.WAL.Recover(ctx)
	w.ic.After(idx, nil)
}

// Open returns the logged entries whose Commit has not succeeded.
func (w *WalW) Open() []WalEntry {
	w.mu.Lock()
	defer w.mu.Unlock()
	out := []WalEntry{}
	for _, e := range w.ent {
		if !e.Committed {
			out = append(out, *e)
		}
	}
	return out
}
