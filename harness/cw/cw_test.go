package cw

import (
	"encoding/json"
	"testing"
	"time"

	"github.com/projecteru2/core/types"
)

func deployOpts(pod string, count int, cpu float64, mem int64) *types.DeployOptions {
	return &types.DeployOptions{
		Name: "app", Entrypoint: &types.Entrypoint{Name: "web"}, Podname: pod, Image: "img",
		Count: count, DeployStrategy: "AUTO", NodeFilter: &types.NodeFilter{Podname: pod},
		Resources: CPUMem(cpu, mem),
	}
}

// TestSmoke: the world builds, creates, removes, injects a fault and snapshots.
func TestSmoke(t *testing.T) {
	t0 := time.Now()
	w := New(t, Options{})
	t.Logf("world up in %v", time.Since(t0))
	if err := w.AddPod("p1"); err != nil {
		t.Fatal(err)
	}
	for _, n := range []string{"n1", "n2"} {
		if err := w.AddNode(n, "p1", 4, 1000); err != nil {
			t.Fatal(err)
		}
	}
	w.Hub.SetOpNorm(1, true)
	ch, err := w.C.CreateWorkload(w.Ctx, deployOpts("p1", 3, 0.5, 100))
	if err != nil {
		t.Fatal(err)
	}
	ids := []string{}
	for m := range ch {
		if m.Error != nil {
			t.Fatalf("create: %v", m.Error)
		}
		ids = append(ids, m.WorkloadID)
	}
	w.Quiesce()
	s := w.Snapshot()
	js, _ := json.MarshalIndent(s, "", " ")
	t.Logf("%s", js)
	if len(s.Workloads) != 3 || len(s.Containers) != 3 {
		t.Fatalf("want 3 workloads")
	}
	for _, n := range s.Nodes {
		if n.UseMem != n.SumMem || len(n.Diffs) != 0 {
			t.Fatalf("usage mismatch %+v", n)
		}
	}
	// fault: engine remove fails -> workload stays, usage restored
	w.IC.Reset()
	w.IC.SetFault(&Addr{Method: "VirtualizationRemove", Target: ids[0], Ord: 0})
	rch, err := w.C.RemoveWorkload(w.Ctx, ids[:1], true)
	if err != nil {
		t.Fatal(err)
	}
	for m := range rch {
		if m.Success {
			t.Fatalf("remove should fail")
		}
	}
	w.Quiesce()
	if c, ok := w.IC.FaultHit(); !ok {
		t.Fatalf("fault not hit")
	} else {
		t.Logf("hit %+v", c)
	}
	for _, c := range w.IC.Log() {
		t.Logf("%3d %-6s %-28s %-28s node=%-3s ord=%d/%d bg=%v f=%v e=%v %s", c.Seq, c.Party, c.Method, c.Target, c.Node, c.Ord, c.NodeOrd, c.Bg, c.Faulted, c.Err, c.Arg)
	}
	s2 := w.Snapshot()
	if len(s2.Workloads) != 3 {
		t.Fatalf("workload lost")
	}
	for _, n := range s2.Nodes {
		if n.UseMem != n.SumMem || len(n.Diffs) != 0 {
			t.Fatalf("usage mismatch after failed remove %+v", n)
		}
	}
	d, err := w.NodeDiffs("n1")
	t.Logf("diffs %v %v; locks %d", d, err, len(w.Locks.Events()))
	t.Logf("total %v", time.Since(t0))
}

// TestCrashRestart: block a create at its k-th call, restart on the same etcd/WAL, recover.
func TestCrashRestart(t *testing.T) {
	w := New(t, Options{})
	if err := w.AddPod("p1"); err != nil {
		t.Fatal(err)
	}
	if err := w.AddNode("n1", "p1", 4, 1000); err != nil {
		t.Fatal(err)
	}
	w.IC.Reset()
	w.Hub.SetOpNorm(1, true)
	w.IC.SetCrash(&Addr{Method: "AddWorkload", Target: "n1", Ord: 1, ByNode: true})
	ch, err := w.C.CreateWorkload(w.Ctx, deployOpts("p1", 2, 0.5, 100))
	if err != nil {
		t.Fatal(err)
	}
	got := 0
	deadline := time.After(1500 * time.Millisecond)
loop:
	for {
		select {
		case m, ok := <-ch:
			if !ok {
				break loop
			}
			got++
			_ = m
		case <-deadline:
			break loop
		}
	}
	if !w.IC.Crashed() {
		t.Fatalf("crash point not reached")
	}
	t.Logf("messages before crash: %d, open wal %+v", got, w.WAL.Open())
	s1 := w.Snapshot()
	t.Logf("before recover: workloads=%d containers=%d usage=%d sum=%d processing=%v", len(s1.Workloads), len(s1.Containers), s1.Nodes[0].UseMem, s1.Nodes[0].SumMem, s1.Processing)
	w.Restart()
	w.C.DisasterRecover(w.Ctx)
	w.Quiesce()
	time.Sleep(100 * time.Millisecond)
	s2 := w.Snapshot()
	t.Logf("after recover: workloads=%d containers=%d usage=%d sum=%d processing=%v", len(s2.Workloads), len(s2.Containers), s2.Nodes[0].UseMem, s2.Nodes[0].SumMem, s2.Processing)
	if s2.Nodes[0].UseMem != s2.Nodes[0].SumMem {
		t.Fatalf("usage not repaired")
	}
}

func TestRedisBackend(t *testing.T) {
	w := New(t, Options{Backend: "redis"})
	if err := w.AddPod("p1"); err != nil {
		t.Fatal(err)
	}
	if err := w.AddNode("n1", "p1", 4, 1000); err != nil {
		t.Fatal(err)
	}
	w.Hub.SetOpNorm(1, true)
	ch, err := w.C.CreateWorkload(w.Ctx, deployOpts("p1", 2, 0.5, 100))
	if err != nil {
		t.Fatal(err)
	}
	for m := range ch {
		if m.Error != nil {
			t.Fatalf("create: %v", m.Error)
		}
	}
	w.Quiesce()
	s := w.Snapshot()
	if len(s.Workloads) != 2 || s.Nodes[0].UseMem != 200 {
		t.Fatalf("bad snapshot %+v", s)
	}
}
