package cw

import (
	"fmt"
	"os"
	"testing"

	resourcetypes "github.com/projecteru2/core/resource/types"
	"github.com/projecteru2/core/types"
)

func dump(t *testing.T, w *World, title string) {
	w.Quiesce()
	fmt.Printf("=== %s\n", title)
	for _, c := range w.IC.Log() {
		bg := ""
		if c.Bg {
			bg = " [bg]"
		}
		e := ""
		if c.Err {
			e = " ERR:" + c.ErrText
		}
		fmt.Printf("  %-6s %-28s %-26s node=%-3s %s%s%s\n", c.Party, c.Method, c.Target, c.Node, c.Arg, bg, e)
	}
	w.IC.Reset()
}

func TestExplore(t *testing.T) {
	if os.Getenv("VERIF_EXPLORE") == "" {
		t.Skip("set VERIF_EXPLORE=1 to print the call sequences of every operation")
	}
	w := New(t, Options{})
	w.IC.Reset()
	w.AddPod("p1")
	dump(t, w, "AddPod")
	w.AddNode("n1", "p1", 4, 1000)
	dump(t, w, "AddNode n1")
	w.AddNode("n2", "p1", 4, 1000)
	w.IC.Reset()
	w.Hub.SetOpNorm(1, true)
	ch, _ := w.C.CreateWorkload(w.Ctx, deployOpts("p1", 3, 0.5, 100))
	ids := []string{}
	for m := range ch {
		ids = append(ids, m.WorkloadID)
	}
	dump(t, w, "Create 3")
	err := w.C.ReallocResource(w.Ctx, &types.ReallocOptions{ID: ids[0], Resources: CPUMem(0.5, 50)})
	dump(t, w, fmt.Sprint("Realloc ", err))
	dch, _ := w.C.DissociateWorkload(w.Ctx, ids[:1])
	for range dch {
	}
	dump(t, w, "Dissociate")
	w.Hub.SetOpNorm(2, false)
	rop := &types.ReplaceOptions{DeployOptions: *deployOpts("p1", 1, 0.5, 100), IDs: ids[1:2]}
	rch, err := w.C.ReplaceWorkload(w.Ctx, rop)
	if err != nil {
		t.Fatal(err)
	}
	for m := range rch {
		fmt.Printf("replace msg err=%v create=%+v\n", m.Error, m.Create)
	}
	dump(t, w, "Replace")
	_, err = w.C.SetNode(w.Ctx, &types.SetNodeOptions{Nodename: "n1", Resources: resourcetypes.Resources{"cpumem": resourcetypes.RawParams{"memory": 500}}, Delta: true})
	dump(t, w, fmt.Sprint("SetNode ", err))
	w.AddNode("n3", "p1", 4, 1000)
	w.IC.Reset()
	err = w.C.RemoveNode(w.Ctx, "n3")
	dump(t, w, fmt.Sprint("RemoveNode ", err))
	w.Hub.SetOpNorm(3, true)
	w.Hub.SetScript(LambdaScript{Stdout: "a\nb\n", ExitCode: 7})
	lo := deployOpts("p1", 1, 0.5, 100)
	_, lch, err := w.C.RunAndWait(w.Ctx, lo, nil)
	if err != nil {
		t.Fatal(err)
	}
	for m := range lch {
		fmt.Printf("lambda msg id=%s data=%q type=%v\n", m.WorkloadID, m.Data, m.StdStreamType)
	}
	dump(t, w, "Lambda")
	s := w.Snapshot()
	fmt.Printf("final: %+v\n", s.Nodes)
}
