package cw

import (
	"fmt"
	"math"
	"sort"
	"strings"

	clientv3 "go.etcd.io/etcd/client/v3"

	resourcetypes "github.com/projecteru2/core/resource/types"
	"github.com/projecteru2/core/types"
	"github.com/projecteru2/core/wal/kv"
)

// WorkloadSnap is a workload record of the metadata store.
type WorkloadSnap struct {
	ID    string `json:"id"`
	Canon string `json:"canon"` // canonical id, see World.Canon
	Node  string `json:"node"`
	Pod   string `json:"pod"`
	Name  string `json:"name"` // workload name without the random suffix (app_entry)
	CPU   int64  `json:"cpu"`  // cpu request in 1/100 core
	Mem   int64  `json:"mem"`  // memory request in bytes
	// what the record tells the engine (EngineParams): cpu in 1/100 core, memory in bytes
	EngCPU int64 `json:"eng_cpu"`
	EngMem int64 `json:"eng_mem"`
}

// NodeSnap is a node record plus what the resource plugin holds for it.
type NodeSnap struct {
	Name      string   `json:"name"`
	Pod       string   `json:"pod"`
	Bypass    bool     `json:"bypass"`
	Available bool     `json:"available"`
	Labels    []string `json:"labels"` // k=v sorted
	Endpoint  string   `json:"-"`
	HasPlugin bool     `json:"has_plugin"` // the cpumem plugin has a record for the node
	CapCPU    int64    `json:"cap_cpu"`    // 1/100 core
	CapMem    int64    `json:"cap_mem"`
	UseCPU    int64    `json:"use_cpu"`
	UseMem    int64    `json:"use_mem"`
	Diffs     []string `json:"diffs"`   // GetNodeResourceInfo(node, recorded workloads, fix=false) diffs
	SumCPU    int64    `json:"sum_cpu"` // sum over recorded workloads
	SumMem    int64    `json:"sum_mem"`
}

// ContSnap is a container of the fake engine.
type ContSnap struct {
	ID    string `json:"id"`
	Canon string `json:"canon"`
	Node  string `json:"node"`
	State string `json:"state"`
}

// KV is a raw key/value pair (processing markers).
type KV struct {
	Key   string `json:"key"`
	Value string `json:"value"`
}

// Snapshot is the canonical projection of the whole world (everything sorted).
type Snapshot struct {
	Pods           []string       `json:"pods"`
	Nodes          []NodeSnap     `json:"nodes"`
	PluginOnly     []string       `json:"plugin_only"`      // nodes known to the plugin but absent from the store
	PluginOnlyInfo []NodeSnap     `json:"plugin_only_info"` // their capacity / usage
	Workloads      []WorkloadSnap `json:"workloads"`
	Containers     []ContSnap     `json:"containers"`
	OpenWAL        []WalEntry     `json:"open_wal"`   // entries logged through the wrapper and not committed
	Processing     []KV           `json:"processing"` // processing markers (key below /processing, value = count)
	Errors         []string       `json:"errors,omitempty"`
}

func centi(f float64) int64 { return int64(math.Round(f * 100)) }

func cpumemOf(r resourcetypes.Resources) (cpu, mem int64) {
	p := r["cpumem"]
	if p == nil {
		return 0, 0
	}
	if p.IsSet("cpu_request") {
		return centi(p.Float64("cpu_request")), p.Int64("memory_request")
	}
	return centi(p.Float64("cpu")), p.Int64("memory")
}

// Canon maps an engine container / workload id to its canonical name
// "<op>.<node>.<idx>" where idx = ERU_WORKLOAD_SEQ minus the smallest SEQ seen
// for the same (op, node) when the op was tagged with SetOpNorm (plain SEQ otherwise).
// Ids not created by the fake engine map to themselves.
func (w *World) Canon(id string) string { return w.Hub.Canon(id) }

// Canon: see World.Canon.
func (h *Hub) Canon(id string) string {
	h.mu.Lock()
	defer h.mu.Unlock()
	m, ok := h.created[id]
	if !ok {
		return id
	}
	base := 0
	if b, ok := h.minSeq[fmt.Sprintf("%d/%s", m.Op, m.Node)]; ok {
		base = b
	}
	return fmt.Sprintf("%d.%s.%d", m.Op, m.Node, m.Seq-base)
}

func trimSuffixName(name string) string {
	// app_entry_suffix -> app_entry
	i := strings.LastIndex(name, "_")
	if i < 0 {
		return name
	}
	return name[:i]
}

// Snapshot reads the world through the UNWRAPPED collaborators (no interception, no locks).
func (w *World) Snapshot() *Snapshot {
	ctx := w.Ctx
	s := &Snapshot{Pods: []string{}, Nodes: []NodeSnap{}, PluginOnly: []string{}, Workloads: []WorkloadSnap{}, Containers: []ContSnap{}, OpenWAL: []WalEntry{}, Processing: []KV{}}
	fail := func(what string, err error) { s.Errors = append(s.Errors, what+": "+err.Error()) }

	pods, err := w.RawStore.GetAllPods(ctx)
	if err != nil {
		fail("GetAllPods", err)
	}
	for _, p := range pods {
		s.Pods = append(s.Pods, p.Name)
	}
	sort.Strings(s.Pods)

	nodes, err := w.RawStore.GetNodesByPod(ctx, &types.NodeFilter{All: true})
	if err != nil {
		fail("GetNodesByPod", err)
	}
	known := map[string]bool{}
	for _, n := range nodes {
		ns := NodeSnap{Name: n.Name, Pod: n.Podname, Bypass: n.Bypass, Available: n.Available, Endpoint: n.Endpoint, Labels: []string{}, Diffs: []string{}}
		for k, v := range n.Labels {
			ns.Labels = append(ns.Labels, k+"="+v)
		}
		sort.Strings(ns.Labels)
		known[n.Name] = true
		wls, err := w.RawStore.ListNodeWorkloads(ctx, n.Name, nil)
		if err != nil {
			fail("ListNodeWorkloads "+n.Name, err)
		}
		for _, wl := range wls {
			c, m := cpumemOf(wl.Resources)
			ns.SumCPU += c
			ns.SumMem += m
			ec, em := cpumemOf(wl.EngineParams)
			s.Workloads = append(s.Workloads, WorkloadSnap{ID: wl.ID, Canon: w.Canon(wl.ID), Node: wl.Nodename, Pod: wl.Podname, Name: trimSuffixName(wl.Name), CPU: c, Mem: m, EngCPU: ec, EngMem: em})
		}
		capa, usage, diffs, err := w.RawRmgr.GetNodeResourceInfo(ctx, n.Name, wls, false)
		if err == nil {
			ns.HasPlugin = true
			ns.CapCPU, ns.CapMem = cpumemOf(capa)
			ns.UseCPU, ns.UseMem = cpumemOf(usage)
			ns.Diffs = append(ns.Diffs, diffs...)
			sort.Strings(ns.Diffs)
		}
		s.Nodes = append(s.Nodes, ns)
	}
	sort.Slice(s.Nodes, func(i, j int) bool { return s.Nodes[i].Name < s.Nodes[j].Name })
	sort.Slice(s.Workloads, func(i, j int) bool { return s.Workloads[i].Canon < s.Workloads[j].Canon })

	// workloads whose node record is gone (only reachable by a full scan)
	if w.Redis == nil {
		if resp, err := w.Etcd.Get(ctx, "/workloads/", clientv3.WithPrefix(), clientv3.WithKeysOnly()); err == nil {
			have := map[string]bool{}
			for _, wl := range s.Workloads {
				have[wl.ID] = true
			}
			for _, kvp := range resp.Kvs {
				id := strings.TrimPrefix(string(kvp.Key), "/workloads/")
				if !have[id] {
					if wl, err := w.RawStore.GetWorkload(ctx, id); err == nil {
						c, m := cpumemOf(wl.Resources)
						ec, em := cpumemOf(wl.EngineParams)
						s.Workloads = append(s.Workloads, WorkloadSnap{ID: wl.ID, Canon: w.Canon(wl.ID), Node: wl.Nodename, Pod: wl.Podname, Name: trimSuffixName(wl.Name), CPU: c, Mem: m, EngCPU: ec, EngMem: em})
					} else {
						s.Workloads = append(s.Workloads, WorkloadSnap{ID: id, Canon: w.Canon(id), Node: "?"})
					}
				}
			}
			sort.Slice(s.Workloads, func(i, j int) bool { return s.Workloads[i].Canon < s.Workloads[j].Canon })
		}
	}

	// plugin records (always in the embedded etcd)
	if resp, err := w.Etcd.Get(ctx, "/resource/cpumem/", clientv3.WithPrefix(), clientv3.WithKeysOnly()); err == nil {
		for _, kvp := range resp.Kvs {
			name := strings.TrimPrefix(string(kvp.Key), "/resource/cpumem/")
			if !known[name] {
				s.PluginOnly = append(s.PluginOnly, name)
				ns := NodeSnap{Name: name, HasPlugin: true, Labels: []string{}, Diffs: []string{}}
				if capa, usage, _, err := w.RawRmgr.GetNodeResourceInfo(ctx, name, nil, false); err == nil {
					ns.CapCPU, ns.CapMem = cpumemOf(capa)
					ns.UseCPU, ns.UseMem = cpumemOf(usage)
				}
				s.PluginOnlyInfo = append(s.PluginOnlyInfo, ns)
			}
		}
		sort.Strings(s.PluginOnly)
	} else {
		fail("scan plugin", err)
	}

	for _, c := range w.Hub.Containers() {
		s.Containers = append(s.Containers, ContSnap{ID: c.ID, Canon: w.Canon(c.ID), Node: c.Node, State: c.State})
	}
	sort.Slice(s.Containers, func(i, j int) bool { return s.Containers[i].Canon < s.Containers[j].Canon })

	s.OpenWAL = w.WAL.Open()
	s.Processing = w.Processing()
	return s
}

// Processing lists the processing markers (etcd backend: keys below /processing;
// redis backend: keys matching /processing*).
func (w *World) Processing() []KV {
	out := []KV{}
	if w.Redis != nil {
		for _, k := range w.Redis.Keys() {
			if strings.HasPrefix(k, "/processing") {
				v, _ := w.Redis.Get(k)
				out = append(out, KV{Key: k, Value: v})
			}
		}
		sort.Slice(out, func(i, j int) bool { return out[i].Key < out[j].Key })
		return out
	}
	resp, err := w.Etcd.Get(w.Ctx, "/processing", clientv3.WithPrefix())
	if err != nil {
		return out
	}
	for _, kvp := range resp.Kvs {
		out = append(out, KV{Key: string(kvp.Key), Value: string(kvp.Value)})
	}
	return out
}

// NodeDiffs runs the real Calcium.NodeResource(node, fix=false) (takes the pod
// lock, goes through the interception layer) and returns its diffs.
func (w *World) NodeDiffs(node string) ([]string, error) {
	nr, err := w.C.NodeResource(w.Ctx, node, false)
	if err != nil {
		return nil, err
	}
	d := append([]string{}, nr.Diffs...)
	sort.Strings(d)
	return d, nil
}

// ScanWALFile lists the raw keys/values stored in a CLOSED bbolt WAL file
// (after World.Restart the old file is open again: use OpenWAL of the wrapper
// or call this between RawWAL.Close and the next boot).
func ScanWALFile(path string) ([]KV, error) {
	db := kv.NewLithium()
	if err := db.Open(path, 0600, 2e9); err != nil {
		return nil, err
	}
	defer db.Close()
	ch, cancel := db.Scan([]byte("/events/"))
	defer cancel()
	out := []KV{}
	for e := range ch {
		if e.Error() != nil {
			return out, e.Error()
		}
		k, v := e.Pair()
		out = append(out, KV{Key: string(k), Value: string(v)})
	}
	return out, nil
}
