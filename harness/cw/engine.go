package cw

import (
	"bytes"
	"context"
	"errors"
	"fmt"
	"io"
	"sort"
	"strconv"
	"strings"
	"sync"
	"time"

	"github.com/projecteru2/core/engine"
	"github.com/projecteru2/core/engine/mocks/fakeengine"
	enginetypes "github.com/projecteru2/core/engine/types"
	resourcetypes "github.com/projecteru2/core/resource/types"
	"github.com/projecteru2/core/types"
)

// EndpointPrefix is the endpoint prefix of the stateful fake engine.  Endpoints
// have the form verif://<world tag>/<nodename>.
const EndpointPrefix = "verif://"

// Container states of the fake engine.
const (
	Created = "Created"
	Running = "Running"
	Stopped = "Stopped"
)

// Container is one container of the fake engine.
type Container struct {
	ID     string
	Node   string
	State  string
	Op     int // value of Hub.Op when it was created
	Seq    int // ERU_WORKLOAD_SEQ passed by calcium (-1 when absent)
	Name   string
	Params resourcetypes.Resources
	Lambda bool
}

// LambdaScript scripts the log/attach/wait behaviour of containers (C30).
type LambdaScript struct {
	LogsErr   bool
	AttachErr bool
	WaitErr   bool
	ExitCode  int64
	Stdout    string // content of the stdout stream (lines)
	Stderr    string
}

// Hub holds the engines of one world (all nodes); it survives Calcium restarts.
type Hub struct {
	mu      sync.Mutex
	tag     string
	ic      *Interceptor // current interceptor (swapped on restart)
	engines map[string]*Engine
	// Op is a tag chosen by the harness (usually the index of the API call in
	// the history); it becomes part of the ids of containers created meanwhile.
	Op      int
	NCPU    int
	Mem     int64
	Script  LambdaScript
	uniq    int
	norm    bool                // ids created now are normalised by the smallest SEQ per (op,node)
	created map[string]contMeta // every id ever created
	minSeq  map[string]int      // "<op>/<node>" -> smallest SEQ seen (only for normalised ops)
	// StrictRemove makes VirtualizationRemove(force=false) fail on a running container (like docker).
	StrictRemove bool
}

var (
	hubsMu   sync.Mutex
	hubs     = map[string]*Hub{}
	regOnce  sync.Once
	hubCount int
)

func lookupEngine(endpoint, nodename string) (*Engine, error) {
	rest := strings.TrimPrefix(endpoint, EndpointPrefix)
	parts := strings.SplitN(rest, "/", 2)
	hubsMu.Lock()
	h := hubs[parts[0]]
	hubsMu.Unlock()
	if h == nil {
		return nil, fmt.Errorf("verif engine: unknown world %q", parts[0])
	}
	name := nodename
	if len(parts) == 2 && parts[1] != "" {
		name = parts[1]
	}
	return h.Engine(name, endpoint), nil
}

type contMeta struct {
	Op, Seq int
	Node    string
}

// SetOpNorm sets the op tag; with norm the canonical index of containers
// created under this tag is SEQ minus the smallest SEQ requested on the same
// node under the same tag (use for create/lambda, where calcium numbers the
// instances of all nodes consecutively in map order).
func (h *Hub) SetOpNorm(op int, norm bool) { h.mu.Lock(); h.Op = op; h.norm = norm; h.mu.Unlock() }

// CanonSeq is the canonical index of the instance created with ERU_WORKLOAD_SEQ=seq on node under op tag op.
func (h *Hub) CanonSeq(op int, node string, seq int) int {
	h.mu.Lock()
	defer h.mu.Unlock()
	if b, ok := h.minSeq[fmt.Sprintf("%d/%s", op, node)]; ok {
		return seq - b
	}
	return seq
}

// Endpoint returns the endpoint of node in this hub.
func (h *Hub) Endpoint(node string) string { return EndpointPrefix + h.tag + "/" + node }

// SetOp sets the op tag.
func (h *Hub) SetOp(op int) { h.mu.Lock(); h.Op = op; h.mu.Unlock() }

// SetScript sets the lambda script.
func (h *Hub) SetScript(s LambdaScript) { h.mu.Lock(); h.Script = s; h.mu.Unlock() }

// Engine returns (creating if needed) the engine of a node.
func (h *Hub) Engine(node, endpoint string) *Engine {
	h.mu.Lock()
	defer h.mu.Unlock()
	e := h.engines[node]
	if e == nil {
		base, _ := fakeengine.MakeClient(context.Background(), types.Config{}, node, endpoint, "", "", "")
		e = &Engine{API: base, hub: h, node: node, endpoint: endpoint, conts: map[string]*Container{}}
		h.engines[node] = e
	}
	return e
}

// Containers returns a copy of all containers, sorted by id.
func (h *Hub) Containers() []Container {
	h.mu.Lock()
	defer h.mu.Unlock()
	out := []Container{}
	for _, e := range h.engines {
		for _, c := range e.conts {
			out = append(out, *c)
		}
	}
	sort.Slice(out, func(i, j int) bool { return out[i].ID < out[j].ID })
	return out
}

// Container looks a container up by id.
func (h *Hub) Container(id string) (Container, bool) {
	h.mu.Lock()
	defer h.mu.Unlock()
	for _, e := range h.engines {
		if c, ok := e.conts[id]; ok {
			return *c, true
		}
	}
	return Container{}, false
}

// Engine is the stateful fake engine of one node.  Methods not listed here
// fall through to the permissive mock of engine/mocks/fakeengine.
type Engine struct {
	engine.API
	hub      *Hub
	node     string
	endpoint string
	conts    map[string]*Container
}

func (e *Engine) before(method, target, arg string) (int, error) {
	e.hub.mu.Lock()
	ic := e.hub.ic
	e.hub.mu.Unlock()
	if ic == nil {
		return -1, nil
	}
	return ic.Before("engine", method, target, e.node, arg)
}
func (e *Engine) after(idx int, err error) {
	e.hub.mu.Lock()
	ic := e.hub.ic
	e.hub.mu.Unlock()
	if ic != nil {
		ic.After(idx, err)
	}
}

func (e *Engine) Info(ctx context.Context) (*enginetypes.Info, error) {
	idx, err := e.before("Info", e.node, "")
	if err != nil {
		return nil, err
	}
	e.after(idx, nil)
	e.hub.mu.Lock()
	defer e.hub.mu.Unlock()
	return &enginetypes.Info{Type: "verif", ID: e.node, NCPU: e.hub.NCPU, MemTotal: e.hub.Mem, StorageTotal: 1 << 40}, nil
}
func (e *Engine) Ping(context.Context) error { return nil }
func (e *Engine) CloseConn() error           { return nil }
func (e *Engine) GetParams() *enginetypes.Params {
	return &enginetypes.Params{Nodename: e.node, Endpoint: e.endpoint}
}

// image calls are trivially ok (the image is always cached); they are logged as one PrepareImage-like family.
func (e *Engine) ImageLocalDigests(ctx context.Context, image string) ([]string, error) {
	idx, err := e.before("ImageLocalDigests", e.node, image)
	if err != nil {
		return nil, err
	}
	e.after(idx, nil)
	return []string{"sha256:verif"}, nil
}
func (e *Engine) ImageRemoteDigest(ctx context.Context, image string) (string, error) {
	idx, err := e.before("ImageRemoteDigest", e.node, image)
	if err != nil {
		return "", err
	}
	e.after(idx, nil)
	return "sha256:verif", nil
}
func (e *Engine) ImagePull(ctx context.Context, ref string, all bool) (io.ReadCloser, error) {
	idx, err := e.before("ImagePull", e.node, ref)
	if err != nil {
		return nil, err
	}
	e.after(idx, nil)
	return io.NopCloser(bytes.NewBufferString("pulled\n")), nil
}

func seqOf(env []string) int {
	for _, kv := range env {
		if strings.HasPrefix(kv, "ERU_WORKLOAD_SEQ=") {
			n, err := strconv.Atoi(strings.TrimPrefix(kv, "ERU_WORKLOAD_SEQ="))
			if err == nil {
				return n
			}
		}
	}
	return -1
}

// VirtualizationCreate creates a container in state Created.  Its id is
// "<op>.<node>.<seq>.<uniq>" (op = Hub.Op, seq = ERU_WORKLOAD_SEQ).
func (e *Engine) VirtualizationCreate(ctx context.Context, opts *enginetypes.VirtualizationCreateOptions) (*enginetypes.VirtualizationCreated, error) {
	seq := seqOf(opts.Env)
	e.hub.mu.Lock()
	if e.hub.norm {
		k := fmt.Sprintf("%d/%s", e.hub.Op, e.node)
		if b, ok := e.hub.minSeq[k]; !ok || seq < b {
			e.hub.minSeq[k] = seq
		}
	}
	e.hub.mu.Unlock()
	idx, err := e.before("VirtualizationCreate", e.node, strconv.Itoa(seq))
	if err != nil {
		return nil, err
	}
	e.hub.mu.Lock()
	e.hub.uniq++
	id := fmt.Sprintf("%03d.%s.%03d.%04d", e.hub.Op, e.node, seq, e.hub.uniq)
	e.hub.created[id] = contMeta{Op: e.hub.Op, Seq: seq, Node: e.node}
	e.conts[id] = &Container{ID: id, Node: e.node, State: Created, Op: e.hub.Op, Seq: seq, Name: opts.Name, Params: opts.EngineParams, Lambda: opts.Lambda}
	e.hub.mu.Unlock()
	e.after(idx, nil)
	return &enginetypes.VirtualizationCreated{ID: id, Name: opts.Name, Labels: map[string]string{}}, nil
}

func (e *Engine) withCont(method, id, arg string, f func(c *Container) error) error {
	idx, err := e.before(method, id, arg)
	if err != nil {
		return err
	}
	e.hub.mu.Lock()
	c := e.conts[id]
	if c == nil {
		err = types.ErrWorkloadNotExists
	} else {
		err = f(c)
	}
	e.hub.mu.Unlock()
	e.after(idx, err)
	return err
}

func (e *Engine) VirtualizationStart(ctx context.Context, id string) error {
	return e.withCont("VirtualizationStart", id, "", func(c *Container) error { c.State = Running; return nil })
}
func (e *Engine) VirtualizationStop(ctx context.Context, id string, _ time.Duration) error {
	return e.withCont("VirtualizationStop", id, "", func(c *Container) error { c.State = Stopped; return nil })
}
func (e *Engine) VirtualizationRemove(ctx context.Context, id string, volumes, force bool) error {
	return e.withCont("VirtualizationRemove", id, fmt.Sprintf("force=%v", force), func(c *Container) error {
		if e.hub.StrictRemove && !force && c.State == Running {
			return errors.New("verif engine: cannot remove a running container without force")
		}
		delete(e.conts, id)
		return nil
	})
}
func (e *Engine) VirtualizationInspect(ctx context.Context, id string) (info *enginetypes.VirtualizationInfo, err error) {
	err = e.withCont("VirtualizationInspect", id, "", func(c *Container) error {
		info = &enginetypes.VirtualizationInfo{ID: id, Image: "verif-image", Running: c.State == Running, Labels: map[string]string{}, Networks: map[string]string{}}
		return nil
	})
	return
}
func (e *Engine) VirtualizationUpdateResource(ctx context.Context, id string, params resourcetypes.Resources) error {
	return e.withCont("VirtualizationUpdateResource", id, "", func(c *Container) error { c.Params = params; return nil })
}
func (e *Engine) VirtualizationCopyChunkTo(ctx context.Context, id, target string, size int64, content io.Reader, uid, gid int, mode int64) error {
	return e.withCont("VirtualizationCopyChunkTo", id, target, func(c *Container) error { return nil })
}
func (e *Engine) VirtualizationCopyFrom(ctx context.Context, id, path string) (content []byte, uid, gid int, mode int64, err error) {
	err = e.withCont("VirtualizationCopyFrom", id, path, func(c *Container) error { content = []byte("verif\n"); return nil })
	return
}
func (e *Engine) VirtualizationLogs(ctx context.Context, opts *enginetypes.VirtualizationLogStreamOptions) (stdout, stderr io.ReadCloser, err error) {
	err = e.withCont("VirtualizationLogs", opts.ID, "", func(c *Container) error {
		if e.hub.Script.LogsErr {
			return errors.New("verif engine: logs failed")
		}
		stdout = io.NopCloser(bytes.NewBufferString(e.hub.Script.Stdout))
		stderr = io.NopCloser(bytes.NewBufferString(e.hub.Script.Stderr))
		return nil
	})
	return
}

type nopWriteCloser struct{ bytes.Buffer }

func (*nopWriteCloser) Close() error { return nil }

func (e *Engine) VirtualizationAttach(ctx context.Context, id string, stream, openStdin bool) (stdout, stderr io.ReadCloser, stdin io.WriteCloser, err error) {
	err = e.withCont("VirtualizationAttach", id, "", func(c *Container) error {
		if e.hub.Script.AttachErr {
			return errors.New("verif engine: attach failed")
		}
		stdout = io.NopCloser(bytes.NewBufferString(e.hub.Script.Stdout))
		stderr = io.NopCloser(bytes.NewBufferString(e.hub.Script.Stderr))
		stdin = &nopWriteCloser{}
		return nil
	})
	return
}
func (e *Engine) VirtualizationResize(ctx context.Context, id string, h, w uint) error { return nil }
func (e *Engine) VirtualizationWait(ctx context.Context, id, state string) (r *enginetypes.VirtualizationWaitResult, err error) {
	err = e.withCont("VirtualizationWait", id, "", func(c *Container) error {
		if e.hub.Script.WaitErr {
			return errors.New("verif engine: wait failed")
		}
		c.State = Stopped
		r = &enginetypes.VirtualizationWaitResult{Code: e.hub.Script.ExitCode}
		return nil
	})
	return
}
