package cw

import (
	"context"
	"fmt"
	"os"
	"path/filepath"
	"sync"
	"testing"
	"time"

	"github.com/alicebob/miniredis/v2"
	clientv3 "go.etcd.io/etcd/client/v3"

	"github.com/projecteru2/core/cluster/calcium"
	"github.com/projecteru2/core/engine"
	enginefactory "github.com/projecteru2/core/engine/factory"
	"github.com/projecteru2/core/resource"
	resourcetypes "github.com/projecteru2/core/resource/types"
	"github.com/projecteru2/core/store"
	"github.com/projecteru2/core/store/etcdv3/embedded"
	"github.com/projecteru2/core/types"
	"github.com/projecteru2/core/wal"
)

// Options configures a world.
type Options struct {
	// PluginFaults: also intercept the plugin's usage write inside the resource manager (see plugin.go)
	PluginFaults bool
	Backend string // "etcd" (default) or "redis" (metadata store on miniredis; the cpumem plugin always uses the embedded etcd)
	NCPU    int    // cores reported by every fake engine (default 8)
	Mem     int64  // memory reported by every fake engine (default 64 GiB)
	NoWipe  bool   // keep the keys already present in the embedded etcd (default: delete everything first)
	// StrictRemove: VirtualizationRemove(force=false) fails on a running container.
	StrictRemove bool
}

// World is one real Calcium with intercepted collaborators.
type World struct {
	T      *testing.T
	Ctx    context.Context
	cancel context.CancelFunc
	Cfg    types.Config
	Dir    string // temp dir holding the WAL file

	C     *calcium.Calcium // the instance under test (replaced by Restart)
	IC    *Interceptor     // interceptor of the current instance
	Locks *LockLog         // lock events of the current instance
	Hub   *Hub             // fake engines (shared across restarts)

	Store *StoreW // what C uses
	Rmgr  *RmgrW
	WAL   *WalW
	// the unwrapped collaborators: use these for snapshots and probes
	RawStore store.Store
	RawRmgr  resource.Manager
	RawWAL   wal.WAL

	Etcd  *clientv3.Client // namespaced client of the embedded cluster (same keys the store/plugin see)
	Redis *miniredis.Miniredis

	old []*oldInstance

	pluginFaults bool
}

type oldInstance struct {
	c  *calcium.Calcium
	ic *Interceptor
}

var (
	worldMu  sync.Mutex
	worldSeq int
)

func registerFactory() {
	regOnce.Do(func() {
		enginefactory.VerifRegisterEngine(EndpointPrefix, func(_ context.Context, _ types.Config, nodename, endpoint, _, _, _ string) (engine.API, error) {
			return lookupEngine(endpoint, nodename)
		})
	})
}

// New builds a world inside test t.  All worlds of one test share one embedded
// etcd cluster (that is how /repo's embedded package works); unless
// Options.NoWipe is set every key is deleted first, so worlds are independent
// as long as they are used one after the other.
func New(t *testing.T, o Options) *World {
	t.Helper()
	registerFactory()
	if o.NCPU == 0 {
		o.NCPU = 8
	}
	if o.Mem == 0 {
		o.Mem = 64 << 30
	}
	worldMu.Lock()
	worldSeq++
	tag := fmt.Sprintf("w%d", worldSeq)
	worldMu.Unlock()

	dir, err := os.MkdirTemp("", "cw-"+tag+"-")
	if err != nil {
		t.Fatalf("cw: %v", err)
	}
	ctx, cancel := context.WithCancel(context.Background())
	w := &World{T: t, Ctx: ctx, cancel: cancel, Dir: dir, Locks: &LockLog{}, pluginFaults: o.PluginFaults}
	w.Cfg = types.Config{
		LockTimeout:         20 * time.Second,
		GlobalTimeout:       20 * time.Second,
		ConnectionTimeout:   5 * time.Second,
		HAKeepaliveInterval: 16 * time.Second,
		MaxConcurrency:      2000,
		Store:               types.Etcd,
		ProbeTarget:         "8.8.8.8:80",
		WALFile:             filepath.Join(dir, "core.wal"),
		WALOpenTimeout:      3 * time.Second,
		Etcd:                types.EtcdConfig{Prefix: "/cw", LockPrefix: "__lock__/cw"},
		Scheduler:           types.SchedulerConfig{MaxShare: -1, ShareBase: 100, MaxDeployCount: 10000},
		GRPCConfig:          types.GRPCConfig{ServiceDiscoveryPushInterval: 15 * time.Second, ServiceHeartbeatInterval: 5 * time.Second},
		Git:                 types.GitConfig{CloneTimeout: 10 * time.Second},
	}
	cluster := embedded.NewCluster(t, w.Cfg.Etcd.Prefix)
	w.Etcd = cluster.RandClient()
	if !o.NoWipe {
		if _, err := w.Etcd.Delete(ctx, "", clientv3.WithPrefix()); err != nil {
			t.Fatalf("cw: wipe: %v", err)
		}
	}
	if o.Backend == "redis" {
		mr, err := miniredis.Run()
		if err != nil {
			t.Fatalf("cw: miniredis: %v", err)
		}
		w.Redis = mr
		w.Cfg.Store = types.Redis
		w.Cfg.Redis = types.RedisConfig{Addr: mr.Addr(), LockPrefix: "__lock__/cw", DB: 0}
	}
	w.Hub = &Hub{tag: tag, engines: map[string]*Engine{}, created: map[string]contMeta{}, minSeq: map[string]int{}, NCPU: o.NCPU, Mem: o.Mem, StrictRemove: o.StrictRemove}
	hubsMu.Lock()
	hubs[tag] = w.Hub
	hubsMu.Unlock()

	enginefactory.InitEngineCache(ctx, w.Cfg, nil)
	w.boot()
	t.Cleanup(w.Close)
	return w
}

// boot builds a Calcium on the current config and wraps its collaborators.
func (w *World) boot() {
	c, err := calcium.New(w.Ctx, w.Cfg, w.T)
	if err != nil {
		w.T.Fatalf("cw: calcium.New: %v", err)
	}
	w.C = c
	w.IC = NewInterceptor()
	w.Locks = &LockLog{}
	w.RawStore, w.RawRmgr, w.RawWAL = c.VerifStore(), c.VerifRmgr(), c.VerifWAL()
	w.Store = &StoreW{Store: w.RawStore, ic: w.IC, lk: w.Locks}
	w.Rmgr = &RmgrW{Manager: w.RawRmgr, ic: w.IC}
	if w.pluginFaults {
		w.wrapPlugins()
	}
	w.WAL = &WalW{WAL: w.RawWAL, ic: w.IC}
	c.VerifSetStore(w.Store)
	c.VerifSetRmgr(w.Rmgr)
	c.VerifSetWAL(w.WAL)
	w.Hub.mu.Lock()
	w.Hub.ic = w.IC
	w.Hub.mu.Unlock()
}

// Restart emulates a process restart after a crash: the calls of the old
// instance stay blocked (arm the crash with IC.SetCrash / SetCrashAtSeq
// beforehand), the bbolt WAL file is closed, and a fresh Calcium is built on
// the same etcd prefix and WAL path with a fresh interceptor.  The fake
// engines and all stored data survive.  Call w.C.DisasterRecover afterwards.
func (w *World) Restart() {
	w.old = append(w.old, &oldInstance{c: w.C, ic: w.IC})
	if err := w.RawWAL.Close(); err != nil {
		w.T.Logf("cw: closing WAL: %v", err)
	}
	w.boot()
}

// Close releases blocked goroutines and stops background tasks.
func (w *World) Close() {
	if w.cancel == nil {
		return
	}
	for _, o := range w.old {
		o.ic.Release()
	}
	w.IC.Release()
	w.IC.WaitQuiet(30*time.Millisecond, 2*time.Second)
	w.cancel()
	w.cancel = nil
	_ = w.RawWAL.Close()
	if w.Redis != nil {
		w.Redis.Close()
	}
	hubsMu.Lock()
	delete(hubs, w.Hub.tag)
	hubsMu.Unlock()
	_ = os.RemoveAll(w.Dir)
}

// ---- convenience API over the real Calcium -------------------------------

// CPUMem builds a cpumem resource request {cpu-request = cpu-limit = cpu, memory-request = memory-limit = mem}.
func CPUMem(cpu float64, mem int64) resourcetypes.Resources {
	return resourcetypes.Resources{"cpumem": resourcetypes.RawParams{
		"cpu-request": cpu, "cpu-limit": cpu, "memory-request": mem, "memory-limit": mem,
	}}
}

// CPUMemBind is CPUMem with cpu-bind: every instance owns its cores (per-core usage matters).
func CPUMemBind(cpu float64, mem int64) resourcetypes.Resources {
	r := CPUMem(cpu, mem)
	r["cpumem"]["cpu-bind"] = true
	return r
}

// AddPod adds a pod through Calcium.
func (w *World) AddPod(name string) error {
	_, err := w.C.AddPod(w.Ctx, name, "")
	return err
}

// AddNode adds a node (fake engine endpoint) with ncpu cores and mem bytes of
// capacity through Calcium.AddNode and marks it alive (node status key with a long TTL).
func (w *World) AddNode(name, pod string, ncpu int, mem int64) error {
	node, err := w.C.AddNode(w.Ctx, &types.AddNodeOptions{
		Nodename: name, Endpoint: w.Hub.Endpoint(name), Podname: pod,
		Resources: resourcetypes.Resources{"cpumem": resourcetypes.RawParams{"cpu": ncpu, "memory": mem}},
	})
	if err != nil {
		return err
	}
	return w.RawStore.SetNodeStatus(w.Ctx, node, 3600)
}

// Quiesce waits until calcium's asynchronous tasks (remap) stopped issuing calls.
func (w *World) Quiesce() bool { return w.IC.WaitQuiet(15*time.Millisecond, 3*time.Second) }
