// Package cw ("calcium world") builds a REAL calcium.Calcium (embedded etcd or
// miniredis store, real cpumem plugin behind cobalt, real bbolt WAL) around a
// stateful fake engine, and wraps store / resource manager / WAL / engine with
// an interception layer: every intercepted call is logged, can be made to fail
// before it executes, can block forever (crash emulation), can call a probe or
// wait on a gate.  See README.md.
package cw

import (
	"errors"
	"fmt"
	"runtime"
	"strconv"
	"strings"
	"sync"
	"time"
)

// ErrInjected is returned by an intercepted call hit by the injected fault.
var ErrInjected = errors.New("verif: injected fault")

// ErrCrashed is returned by blocked calls when the world is released at the
// end of a test (so abandoned goroutines can finish).
var ErrCrashed = errors.New("verif: instance crashed")

// Call is one intercepted call.
type Call struct {
	Seq     int    // global ordinal among intercepted calls of this interceptor
	Party   string // store | rmgr | engine | wal | lock
	Method  string // Go method name (WAL commit: "Commit")
	Target  string // entity the call is about (workload id, node name, pod, lock key, WAL event type ...)
	Node    string // node the call concerns ("" when none)
	Arg     string // extra argument worth logging (deploy count, SEQ ...)
	Ord     int    // ordinal among calls with the same (Method, Target)
	NodeOrd int    // ordinal among calls with the same (Method, Node)
	Gid     uint64 // goroutine id of the caller
	Bg      bool   // issued by the asynchronous remap task (RemapResourceAndLog); such calls have
	//                their own ordinal counters and are never hit by a fault or crash address
	Faulted bool // the injected fault hit this call (it did not execute)
	Crashed bool // blocked by the crash
	Err     bool // the call executed and returned an error
	ErrText string
}

// Addr addresses one call: the Ord-th call with the given Method and Target;
// with ByNode the Ord-th call with the given Method whose Node is Target.
// Method "*" matches any method and Target "*" any target (ordinal then counts
// all calls matching the wildcard pattern).
type Addr struct {
	Method string
	Target string
	Ord    int
	ByNode bool
}

func (a Addr) String() string {
	k := "target"
	if a.ByNode {
		k = "node"
	}
	return fmt.Sprintf("%s/%s=%s#%d", a.Method, k, a.Target, a.Ord)
}

// Interceptor is shared by all wrappers of one Calcium instance.
type Interceptor struct {
	mu       sync.Mutex
	enabled  bool
	log      []Call
	cnt      map[string]int
	wild     map[string]int
	fault    *Addr
	faultErr error
	faultHit int // Seq of the call the fault hit, -1 if none
	crash    *Addr
	crashSeq int // crash at global call ordinal (since Reset), -1 = off
	crashed  bool
	crashHit int
	release  chan struct{}
	released bool
	// Probe, when set, is called (outside the interceptor lock, in the calling
	// goroutine) before every intercepted call that is going to proceed.
	Probe func(c Call)
	// Gate, when set, is called before every intercepted call and may block
	// (controlled scheduling); it runs after fault/crash decisions.
	Gate func(c Call)
	// FaultBackground makes calls of the asynchronous remap task addressable
	// like any other call (default false: they are logged with Bg=true only).
	FaultBackground bool
	last            time.Time
	inflight        int
}

// NewInterceptor returns an enabled interceptor with no fault.
func NewInterceptor() *Interceptor {
	ic := &Interceptor{release: make(chan struct{})}
	ic.Reset()
	ic.enabled = true
	return ic
}

// Reset clears the log, counters, fault and crash settings (not Probe/Gate).
func (ic *Interceptor) Reset() {
	ic.mu.Lock()
	defer ic.mu.Unlock()
	ic.log = nil
	ic.cnt = map[string]int{}
	ic.wild = map[string]int{}
	ic.fault, ic.crash = nil, nil
	ic.faultErr = ErrInjected
	ic.faultHit, ic.crashHit, ic.crashSeq = -1, -1, -1
	// inflight is deliberately kept: calls in flight across a Reset still end with After
}

// Enable switches logging/injection on or off (off: wrappers pass through).
func (ic *Interceptor) Enable(on bool) { ic.mu.Lock(); ic.enabled = on; ic.mu.Unlock() }

// SetFault arms the single injected fault (nil disarms). The fault fires once.
func (ic *Interceptor) SetFault(a *Addr) {
	ic.mu.Lock()
	ic.fault = a
	ic.faultHit = -1
	ic.mu.Unlock()
}

// SetFaultErr sets the error returned by the injected fault.
func (ic *Interceptor) SetFaultErr(e error) { ic.mu.Lock(); ic.faultErr = e; ic.mu.Unlock() }

// SetCrash arms the crash: the addressed call and every later intercepted call
// of this interceptor block until Release.
func (ic *Interceptor) SetCrash(a *Addr) { ic.mu.Lock(); ic.crash = a; ic.mu.Unlock() }

// SetCrashAtSeq arms the crash at the k-th intercepted call counted from the
// last Reset (k = 0 blocks the very first call).
func (ic *Interceptor) SetCrashAtSeq(k int) { ic.mu.Lock(); ic.crashSeq = k; ic.mu.Unlock() }

// Crashed reports whether the crash point was reached.
func (ic *Interceptor) Crashed() bool { ic.mu.Lock(); defer ic.mu.Unlock(); return ic.crashed }

// Release unblocks every call blocked by a crash (they return ErrCrashed) and
// makes all later calls of a crashed interceptor fail fast.
func (ic *Interceptor) Release() {
	ic.mu.Lock()
	defer ic.mu.Unlock()
	if !ic.released {
		ic.released = true
		close(ic.release)
	}
}

// FaultHit returns the call hit by the fault, if any.
func (ic *Interceptor) FaultHit() (Call, bool) {
	ic.mu.Lock()
	defer ic.mu.Unlock()
	if ic.faultHit < 0 {
		return Call{}, false
	}
	return ic.log[ic.faultHit], true
}

// Log returns a copy of the call log.
func (ic *Interceptor) Log() []Call {
	ic.mu.Lock()
	defer ic.mu.Unlock()
	return append([]Call(nil), ic.log...)
}

// Len is the number of logged calls.
func (ic *Interceptor) Len() int { ic.mu.Lock(); defer ic.mu.Unlock(); return len(ic.log) }

// inRemap reports whether the caller runs inside calcium's asynchronous remap task.
func inRemap() bool {
	var pcs [48]uintptr
	n := runtime.Callers(3, pcs[:])
	fr := runtime.CallersFrames(pcs[:n])
	for {
		f, more := fr.Next()
		if strings.Contains(f.Function, "RemapResourceAndLog") || strings.Contains(f.Function, "doRemapResource") {
			return true
		}
		if !more {
			return false
		}
	}
}

// WaitQuiet blocks until no intercepted call has started for `quiet`, or `max` elapsed.
// It returns true when quiescence was observed.
func (ic *Interceptor) WaitQuiet(quiet, max time.Duration) bool {
	deadline := time.Now().Add(max)
	for {
		ic.mu.Lock()
		idle := time.Since(ic.last)
		busy := ic.inflight
		ic.mu.Unlock()
		if idle >= quiet && busy == 0 {
			return true
		}
		if time.Now().After(deadline) {
			return false
		}
		time.Sleep(quiet / 4)
	}
}

func goid() uint64 {
	var buf [64]byte
	n := runtime.Stack(buf[:], false)
	f := strings.Fields(string(buf[:n]))
	if len(f) < 2 {
		return 0
	}
	id, _ := strconv.ParseUint(f[1], 10, 64)
	return id
}

func (ic *Interceptor) match(tag string, a *Addr, c *Call) bool {
	if a == nil {
		return false
	}
	if a.Method != "*" && a.Method != c.Method {
		return false
	}
	if a.Method == "*" || a.Target == "*" {
		key := tag + a.Method + "\x00" + a.Target
		if a.Target != "*" {
			t := c.Target
			if a.ByNode {
				t = c.Node
			}
			if t != a.Target {
				return false
			}
		}
		n := ic.wild[key]
		ic.wild[key] = n + 1
		return n == a.Ord
	}
	if a.ByNode {
		return c.Node == a.Target && c.NodeOrd == a.Ord
	}
	return c.Target == a.Target && c.Ord == a.Ord
}

// Before is called by the wrappers ahead of the real call.  It returns the
// index of the log record and a non-nil error when the call must not execute.
func (ic *Interceptor) Before(party, method, target, node, arg string) (int, error) {
	ic.mu.Lock()
	if !ic.enabled {
		ic.mu.Unlock()
		return -1, nil
	}
	c := Call{Seq: len(ic.log), Party: party, Method: method, Target: target, Node: node, Arg: arg, Gid: goid(), Bg: inRemap()}
	ic.last = time.Now()
	if c.Bg && !ic.FaultBackground {
		k := "b\x00" + method + "\x00" + target
		c.Ord = ic.cnt[k]
		ic.cnt[k] = c.Ord + 1
		c.NodeOrd = c.Ord
		if ic.crashed {
			c.Crashed = true
			ic.log = append(ic.log, c)
			rel := ic.release
			ic.mu.Unlock()
			<-rel
			return c.Seq, ErrCrashed
		}
		ic.log = append(ic.log, c)
		ic.inflight++
		ic.mu.Unlock()
		return c.Seq, nil
	}
	k1 := "t\x00" + method + "\x00" + target
	c.Ord = ic.cnt[k1]
	ic.cnt[k1] = c.Ord + 1
	k2 := "n\x00" + method + "\x00" + node
	c.NodeOrd = ic.cnt[k2]
	ic.cnt[k2] = c.NodeOrd + 1

	if !ic.crashed && (ic.match("c", ic.crash, &c) || (ic.crashSeq >= 0 && c.Seq == ic.crashSeq)) {
		ic.crashed = true
		ic.crashHit = c.Seq
	}
	if ic.crashed {
		c.Crashed = true
		ic.log = append(ic.log, c)
		rel := ic.release
		ic.mu.Unlock()
		<-rel
		return c.Seq, ErrCrashed
	}
	if ic.faultHit < 0 && ic.match("f", ic.fault, &c) {
		c.Faulted = true
		ic.faultHit = c.Seq
		ic.log = append(ic.log, c)
		err := ic.faultErr
		ic.mu.Unlock()
		return c.Seq, err
	}
	ic.log = append(ic.log, c)
	ic.inflight++
	probe, gate := ic.Probe, ic.Gate
	ic.mu.Unlock()
	if probe != nil {
		probe(c)
	}
	if gate != nil {
		gate(c)
	}
	return c.Seq, nil
}

// After records the outcome of an executed call.
func (ic *Interceptor) After(idx int, err error) {
	if idx < 0 {
		return
	}
	ic.mu.Lock()
	if ic.inflight > 0 {
		ic.inflight--
	}
	ic.last = time.Now()
	if err != nil && idx < len(ic.log) {
		ic.log[idx].Err = true
		ic.log[idx].ErrText = err.Error()
	}
	ic.mu.Unlock()
}
