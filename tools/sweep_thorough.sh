#!/bin/bash
# run the thorough tier of the given properties sequentially; summary in $LOG
LOG=${LOG:-/tmp/sweep-thorough.log}
cd /verif
for id in "$@"; do
  s=$(date +%s)
  out=$(VERIF_SEED=${VERIF_SEED:-1} VERIF_EVIDENCE_DIR=${SWEEP_EVID:-/tmp/sweep-evid-thorough} timeout 5400 ./check $id --tier thorough 2>&1); rc=$?
  e=$(date +%s)
  echo "$id rc=$rc wall=$((e-s))s $(echo "$out" | grep -c '^VIOLATION') violations; $(echo "$out" | grep "^$id tier" | sed 's/.*obligations/obligations/')" >> $LOG
  echo "$out" | grep '^VIOLATION\|^note:' | head -5 >> $LOG
done
echo DONE >> $LOG
