#!/usr/bin/env python3
"""Assemble MANIFEST.json from manifest.d/*.json (checks) and *.na.json (not applicable),
and known_findings.json from known_findings.d/*.json. Run from /verif."""
import glob, json, os, subprocess
ROOT = os.path.dirname(os.path.dirname(os.path.abspath(__file__)))
os.chdir(ROOT)
base = json.load(open("MANIFEST.json"))
checks, na = [], []
for p in sorted(glob.glob("manifest.d/C*.json")):
    j = json.load(open(p))
    if p.endswith(".na.json"):
        na.append(j)
    else:
        checks.append(j)
claimed = {c["property_id"] for c in checks}
na = [x for x in na if x["property_id"] not in claimed]
all_ids = [json.loads(l)["id"] for l in open("properties.jsonl")]
listed = claimed | {x["property_id"] for x in na}
for i in all_ids:
    if i not in listed:
        na.append({"property_id": i, "reason": "not yet built: model/theorem/harness for this property are not complete in this revision (see DESIGN.md)"})
na.sort(key=lambda x: x["property_id"])
base["checks"] = checks
base["not_applicable"] = na
base["engines"][0]["serves_properties"] = sorted(claimed)
try:
    out = subprocess.run(["git", "-C", "/repo", "log", "--format=%H %s"], capture_output=True, text=True).stdout
    base["hooks"]["source_commits"] = [l.split()[0] for l in out.splitlines() if "verif hook" in l]
except Exception:
    pass
json.dump(base, open("MANIFEST.json", "w"), indent=1)
fs = []
seen = set()
for p in sorted(glob.glob("known_findings.d/*.json")):
    for f in json.load(open(p)).get("findings", []):
        k = (f["property"], f["id"])
        if k not in seen:
            seen.add(k); fs.append(f)
if os.path.exists("known_findings.json"):
    for f in json.load(open("known_findings.json")).get("findings", []):
        k = (f["property"], f["id"])
        if k not in seen:
            seen.add(k); fs.append(f)
fs.sort(key=lambda f: (f["property"], f["id"]))
json.dump({"findings": fs}, open("known_findings.json", "w"), indent=1)
print("checks:", sorted(claimed)); print("not_applicable:", [x["property_id"] for x in na])
