#!/usr/bin/env python3
"""Run the repository's test suite with the verif guard OFF and compare with BASELINE.json's stable_pass list.
Usage: tools/baseline.py [repo_dir]   (default /repo). Exit 0 iff every stable test passed."""
import json, os, subprocess, sys
repo = sys.argv[1] if len(sys.argv) > 1 else "/repo"
base = json.load(open("/root/.vp/BASELINE.json"))
env = dict(os.environ, GOFLAGS="-mod=mod", GOPROXY="off", GOSUMDB="off", GOTOOLCHAIN="local")
p = subprocess.run(["go", "test", "-json", "-vet=off", "-count=1", "-p", os.environ.get("P", "6"), "-timeout", "25m", "./..."],
                   cwd=repo, env=env, capture_output=True, text=True)
passed, failed = set(), set()
for line in p.stdout.splitlines():
    try:
        e = json.loads(line)
    except Exception:
        continue
    if "Test" in e and e.get("Action") in ("pass", "fail"):
        (passed if e["Action"] == "pass" else failed).add("%s::%s" % (e["Package"], e["Test"]))
missing = [t for t in base["stable_pass"] if t not in passed]
print("stable tests: %d, passed now: %d, missing/failing: %d" % (len(base["stable_pass"]), len(base["stable_pass"]) - len(missing), len(missing)))
for t in missing:
    print("  NOT PASSING:", t, "(failed)" if t in failed else "(did not run)")
extra_fail = sorted(f for f in failed if f not in base["always_fail"] and f not in base["stable_pass"])
if extra_fail:
    print("other failing tests (not in the stable baseline):", extra_fail[:20])
sys.exit(1 if missing else 0)
