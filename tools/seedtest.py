#!/usr/bin/env python3
"""Run the registered quick checks against a seeded change without touching /repo.

  tools/seedtest.py seeded/<id> [Cxx ...]

Creates a scratch worktree of /repo's HEAD under /tmp, applies seeded/<id>/patch.diff,
runs ./check for the property in meta.json (or the ones given) with VERIF_REPO pointing
at the worktree and evidence redirected, prints which checks raised VIOLATION, removes
the worktree."""
import json, os, subprocess, sys, shutil, tempfile
ROOT = os.path.dirname(os.path.dirname(os.path.abspath(__file__)))
d = os.path.abspath(sys.argv[1])
meta = json.load(open(os.path.join(d, "meta.json")))
props = sys.argv[2:] or ([meta["property"]] if isinstance(meta["property"], str) else meta["property"])
wt = tempfile.mkdtemp(prefix="seedwt-", dir="/tmp")
os.rmdir(wt)
subprocess.check_call(["git", "-C", "/repo", "worktree", "add", "-f", "--detach", wt, "HEAD"], stdout=subprocess.DEVNULL, stderr=subprocess.DEVNULL)
rc_all = {}
try:
    subprocess.check_call(["git", "-C", wt, "apply", os.path.join(d, "patch.diff")])
    ev = tempfile.mkdtemp(prefix="seedev-", dir="/tmp")
    for p in props:
        env = dict(os.environ, VERIF_REPO=wt, VERIF_EVIDENCE_DIR=ev)
        r = subprocess.run([os.path.join(ROOT, "check"), p, "--tier", os.environ.get("SEED_TIER", "quick")], cwd=ROOT, env=env, capture_output=True, text=True)
        lines = [l for l in r.stdout.splitlines() if l.startswith(("VIOLATION", "KNOWN-FINDING", p))]
        print("== %s on %s: exit %d" % (p, os.path.basename(d), r.returncode))
        for l in lines:
            print("   " + l)
        rc_all[p] = r.returncode
    shutil.rmtree(ev, ignore_errors=True)
finally:
    subprocess.call(["git", "-C", "/repo", "worktree", "remove", "--force", wt], stdout=subprocess.DEVNULL, stderr=subprocess.DEVNULL)
    shutil.rmtree(wt, ignore_errors=True)
caught = [p for p, rc in rc_all.items() if rc == 1]
print("CAUGHT by: %s" % (", ".join(caught) or "none"))
import time
head = subprocess.run(["git", "-C", "/repo", "rev-parse", "--short", "HEAD"], capture_output=True, text=True).stdout.strip()
rp = os.path.join(d, "result.json")
old = json.load(open(rp)) if os.path.exists(rp) else {"runs": []}
old["runs"].append({"repo_head": head, "tier": os.environ.get("SEED_TIER", "quick"), "verif_seed": int(os.environ.get("VERIF_SEED", "1") or 1), "checks": rc_all, "caught_by": caught, "at": time.strftime("%Y-%m-%dT%H:%M:%SZ", time.gmtime())})
old["caught_by"] = sorted(set(sum((r["caught_by"] for r in old["runs"]), [])))
json.dump(old, open(rp, "w"), indent=1)
sys.exit(0 if caught else 2)
