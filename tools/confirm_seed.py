#!/usr/bin/env python3
"""Confirm a seeded change: pristine demo passes; patch applies+builds; demo fails with patch;
existing tests of touched packages and their importers still pass with patch.
  tools/confirm_seed.py <seed dir> [--dest /verif/seeded]
Parses demo.md heuristically (dest path of each *_test.go and the `go test` command), records
the result in meta.json ("confirmed": {...}) and copies the directory to dest when all hold."""
import json, os, re, shutil, subprocess, sys, tempfile
ENV = dict(os.environ, GOFLAGS="-mod=mod", GOPROXY="off", GOSUMDB="off", GOTOOLCHAIN="local")
SKIP = "TestListNetworks|TestWatchServiceStatus|TestSourceCode"
d = os.path.abspath(sys.argv[1])
dest_root = sys.argv[sys.argv.index("--dest") + 1] if "--dest" in sys.argv else "/verif/seeded"
meta = json.load(open(os.path.join(d, "meta.json")))
md = open(os.path.join(d, "demo.md")).read()
gofiles = [f for f in os.listdir(d) if f.endswith(".go")]
demo_files = meta.get("demo_files")
if demo_files and isinstance(demo_files[0], str):
    demo_files = [{"src": os.path.basename(x), "dest": x} for x in demo_files if os.path.exists(os.path.join(d, os.path.basename(x)))] or None
if not demo_files:
    demo_files = []
    for f in gofiles:
        m = re.search(r"[`'\"\s(]((?:[\w.-]+/)+" + re.escape(f) + r")", md)
        if not m:
            # directory mentioned separately
            m2 = re.search(r"[`'\"\s(]((?:[\w.-]+/)+)[`'\"\s)]", md)
            if not m2:
                sys.exit("cannot find destination for %s in demo.md" % f)
            demo_files.append({"src": f, "dest": m2.group(1) + f})
        else:
            demo_files.append({"src": f, "dest": m.group(1)})
cmd = meta.get("demo_cmd")
if not cmd:
    cands = [l.strip().strip("`") for l in md.splitlines() if re.search(r"\bgo test\b", l)]
    cands = [re.sub(r"^\$\s*", "", c) for c in cands]
    cands = [c[c.index("go test"):] for c in cands]
    cands = [c for c in cands if "./" in c]
    if not cands:
        sys.exit("cannot find go test command in demo.md")
    cmd = cands[0]
cmd = re.sub(r"`.*$", "", cmd).strip()
wt = tempfile.mkdtemp(prefix="confirm-", dir="/tmp"); os.rmdir(wt)
subprocess.check_call(["git", "-C", "/repo", "worktree", "add", "-f", "--detach", wt, "HEAD"], stdout=subprocess.DEVNULL, stderr=subprocess.DEVNULL)
head = subprocess.check_output(["git", "-C", "/repo", "rev-parse", "HEAD"], text=True).strip()
res = {"repo_head": head, "commands": []}
def sh(c, timeout=1500):
    p = subprocess.run(["bash", "-o", "pipefail", "-c", c], cwd=wt, env=ENV, capture_output=True, text=True, timeout=timeout)
    res["commands"].append("%s -> exit %d" % (c, p.returncode))
    return p.returncode, p.stdout + p.stderr
def place():
    for f in demo_files:
        os.makedirs(os.path.dirname(os.path.join(wt, f["dest"])), exist_ok=True)
        shutil.copy(os.path.join(d, f["src"]), os.path.join(wt, f["dest"]))
def unplace():
    for f in demo_files:
        try: os.remove(os.path.join(wt, f["dest"]))
        except FileNotFoundError: pass
try:
    place()
    rc, out = sh("timeout 900 " + cmd)
    res["demo_passes_pristine"] = rc == 0
    if rc != 0: res["pristine_output"] = out[-1500:]
    unplace()
    rc, out = sh("git apply %s" % os.path.join(d, "patch.diff"))
    res["applies"] = rc == 0
    if rc == 0:
        rc, out = sh("go build ./...")
        res["builds"] = rc == 0
        place()
        rc, out = sh("timeout 900 " + cmd)
        res["demo_fails_with_patch"] = rc != 0 and ("--- FAIL" in out or "FAIL" in out) and "[build failed]" not in out and "[setup failed]" not in out
        res["patched_output"] = out[-1500:]
        unplace()
        files = subprocess.check_output(["git", "-C", wt, "diff", "--name-only"], text=True).split()
        pkgs = sorted({"github.com/projecteru2/core/" + os.path.dirname(f) for f in files if f.endswith(".go")})
        lst = subprocess.check_output("go list -f '{{.ImportPath}} {{join .Imports \" \"}} {{join .TestImports \" \"}} {{join .XTestImports \" \"}}' ./...", shell=True, cwd=wt, env=ENV, text=True)
        targets = set(pkgs)
        for line in lst.splitlines():
            parts = line.split()
            if any(p in parts[1:] for p in pkgs):
                targets.add(parts[0])
        targets = sorted(t.replace("github.com/projecteru2/core", ".") for t in targets)
        ok = True
        for attempt in range(2):
            rc, out = sh("go test -vet=off -count=1 -p 4 -timeout 20m -skip '%s' %s" % (SKIP, " ".join(targets)), timeout=1500)
            ok = rc == 0
            if ok: break
        res["existing_tests_pass_with_patch"] = ok
        if not ok: res["tests_output"] = "\n".join(l for l in out.splitlines() if l.startswith(("FAIL", "--- FAIL", "panic")))[-1500:]
finally:
    subprocess.call(["git", "-C", "/repo", "worktree", "remove", "--force", wt], stdout=subprocess.DEVNULL, stderr=subprocess.DEVNULL)
    shutil.rmtree(wt, ignore_errors=True)
meta["demo_files"], meta["demo_cmd"], meta["confirmed"] = demo_files, cmd, res
json.dump(meta, open(os.path.join(d, "meta.json"), "w"), indent=1)
good = all(res.get(k) for k in ("demo_passes_pristine", "applies", "builds", "demo_fails_with_patch", "existing_tests_pass_with_patch"))
print(os.path.basename(d), {k: res.get(k) for k in ("demo_passes_pristine", "applies", "builds", "demo_fails_with_patch", "existing_tests_pass_with_patch")}, "CONFIRMED" if good else "NOT CONFIRMED")
if good:
    dst = os.path.join(dest_root, os.path.basename(d))
    shutil.rmtree(dst, ignore_errors=True)
    shutil.copytree(d, dst)
sys.exit(0 if good else 1)
