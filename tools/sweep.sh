#!/bin/bash
# run every registered quick check once; summary in $1 (default /tmp/sweep.log)
LOG=${1:-/tmp/sweep.log}; : > $LOG
cd /verif
for id in $(python3 -c "import json;print(' '.join(c['property_id'] for c in json.load(open('MANIFEST.json'))['checks']))"); do
  s=$(date +%s)
  out=$(VERIF_SEED=${VERIF_SEED:-1} VERIF_EVIDENCE_DIR=${SWEEP_EVID:-/tmp/sweep-evid} timeout 1200 ./check $id --tier quick 2>&1); rc=$?
  e=$(date +%s)
  echo "$id rc=$rc wall=$((e-s))s $(echo "$out" | grep -c '^VIOLATION') violations; $(echo "$out" | grep -c '^KNOWN-FINDING') known; $(echo "$out" | grep "^$id tier" | sed 's/.*obligations/obligations/')" >> $LOG
  echo "$out" | grep '^VIOLATION\|^note:' | head -5 >> $LOG
done
echo DONE >> $LOG
